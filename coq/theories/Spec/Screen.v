(* C06 C07 C14 (C12 main_untouched): what the terminal must show, stated over
   the VT state only — independent of Model/Renderer.v.  Executable, so the
   same predicates are evaluated on the token stream of the REAL renderer. *)
From Coq Require Import NArith List Bool Arith.
Import ListNotations.
From BT Require Import Base.Bytes Model.VT.

(* strings.Split(s, "\n") — specification-side copy *)
Fixpoint lines_of (s : bytes) : list bytes :=
  match s with
  | [] => [[]]
  | c :: t =>
    match lines_of t with
    | l :: ls => if (c =? 10)%N then [] :: l :: ls else (c :: l) :: ls
    | [] => [[c]]
    end
  end.

Definition lastn {A} (n : nat) (l : list A) : list A := skipn (length l - n) l.

Definition paint_row (w : nat) (l : bytes) : row := firstn w l ++ repeat blank (w - length l).

(* the rows a view must occupy: its last H lines, each cut at W columns; "" is one blank line *)
Definition paint (w h : nat) (v : bytes) : list row :=
  map (paint_row w) (lastn h (lines_of (match v with [] => [32%N] | _ => v end))).

Fixpoint rows_eqb (a b : list row) : bool :=
  match a, b with
  | [], [] => true
  | x :: a', y :: b' => bytes_eqb x y && rows_eqb a' b'
  | _, _ => false
  end.

Definition is_blank_row (r : row) : bool := all_bytes (fun g => (g =? blank)%N) r.

(* the printed lines as rows: a line wider than the terminal wraps *)
Fixpoint chunk_fuel (fuel w : nat) (l : bytes) : list row :=
  match fuel with
  | O => []
  | S f => if Nat.leb (length l) w then [paint_row w l]
           else firstn w l :: chunk_fuel f w (skipn w l)
  end.
Definition wrap (w : nat) (l : bytes) : list row := chunk_fuel (S (length l)) w l.
Definition print_rows (w : nat) (body : bytes) : list row := flat_map (wrap w) (lines_of body).

(* inline: the n rows ending at the cursor row hold the view, nothing stale
   below, cursor at the first column; returns the rows above the view *)
Definition shows_inline (t : vt) (v : bytes) : option (list row) :=
  let b := vmain t in let c := cur b in
  let p := paint (vW t) (vH t) v in
  let n := length p in
  if negb (in_alt t) && Nat.eqb (ccol c) 0 && negb (cpend c) && Nat.leb n (S (crow c)) &&
     Nat.leb (top (vH t) b) (S (crow c) - n) && Nat.ltb (crow c) (length (tape b)) &&
     rows_eqb (firstn n (skipn (S (crow c) - n) (tape b))) p &&
     forallb is_blank_row (skipn (S (crow c)) (tape b))
  then Some (firstn (S (crow c) - n) (tape b)) else None.

(* alt screen: the view occupies the first n rows of the window, all other rows blank *)
Definition shows_alt (t : vt) (v : bytes) : bool :=
  let b := valt t in let c := cur b in
  let p := paint (vW t) (vH t) v in
  let n := length p in
  let win := skipn (top (vH t) b) (tape b) in
  in_alt t && Nat.eqb (ccol c) 0 && negb (cpend c) && Nat.eqb (crow c) (top (vH t) b + (n - 1)) &&
  rows_eqb (firstn n win) p && forallb is_blank_row (skipn n win) && Nat.eqb (length win) (vH t).

(* after quit (inline): every newline-terminated line of the final view stays,
   the row after them is blank and holds the cursor at column 0 *)
Definition shows_final_inline (t : vt) (v : bytes) : option (list row) :=
  let b := vmain t in let c := cur b in
  let p := paint (vW t) (vH t) v in
  let n := length p in
  if negb (in_alt t) && Nat.eqb (ccol c) 0 && negb (cpend c) && Nat.leb n (S (crow c)) &&
     Nat.leb (top (vH t) b) (S (crow c) - n) && Nat.ltb (crow c) (length (tape b)) &&
     rows_eqb (firstn (n - 1) (skipn (S (crow c) - n) (tape b))) (firstn (n - 1) p) &&
     forallb is_blank_row (skipn (crow c) (tape b))
  then Some (firstn (S (crow c) - n) (tape b)) else None.

(* ------------------------------------------------------------------ the oracle
   Runs over a history of abstract operations paired with the tokens the
   implementation emitted for each, and reports the indices of the checked
   points where the screen is wrong.  It does not use the renderer model. *)

Inductive sop :=
| SWrite (v : bytes) | SFlush | SResizeAlt (w h : nat) | SEnterAlt | SExitAlt | SClear
| SPrint (body : bytes) | SStop | SOther.

Record ostate := {
  o_vt : vt;
  o_latest : option bytes;      (* view written since the last flush *)
  o_shown : option bytes;       (* view the last checked flush displayed *)
  o_above : list row;           (* what must be above the inline view *)
  o_pending : list row;         (* printed rows not yet flushed *)
  o_alt : bool
}.

Definition fail_code := nat.  (* 1 view wrong, 2 rows above wrong, 3 final wrong *)

Definition o_step (shared : bool) (s : ostate) (o : sop) (out : list tok) : ostate * list fail_code :=
  let t0 := match o with
            | SResizeAlt w h => resize_alt (o_vt s) w h     (* the terminal is resized, then the renderer is told *)
            | _ => o_vt s
            end in
  let t := vt_run shared t0 out in
  let keep lt sh ab pe al := {| o_vt := t; o_latest := lt; o_shown := sh; o_above := ab; o_pending := pe; o_alt := al |} in
  match o with
  | SWrite v => (keep (Some v) (o_shown s) (o_above s) (o_pending s) (o_alt s), [])
  | SFlush =>
    match o_latest s with
    | None =>
      match o_pending s, o_shown s, out, o_alt s with
      | _ :: _, Some v, _ :: _, false =>
        (* nothing was written since the last flush, yet this flush painted (a repaint was due): the queued printed
           lines went out with it, above the view it displays *)
        let ab := o_above s ++ o_pending s in
        match shows_inline t v with
        | Some above => (keep None (Some v) ab [] false, if rows_eqb above ab then [] else [2%nat])
        | None => (keep None (Some v) ab [] false, [1%nat])
        end
      | _, _, _, _ => (keep None (o_shown s) (o_above s) (o_pending s) (o_alt s), [])
      end
    | Some v =>
      if o_alt s then (keep None (Some v) (o_above s) (o_pending s) true, if shows_alt t v then [] else [1%nat])
      else
        let ab := o_above s ++ o_pending s in
        match shows_inline t v with
        | Some above => (keep None (Some v) ab [] false, if rows_eqb above ab then [] else [2%nat])
        | None => (keep None (Some v) ab [] false, [1%nat])
        end
    end
  | SStop =>
    match o_latest s, o_alt s with
    | Some v, false =>
      let ab := o_above s ++ o_pending s in
      match shows_final_inline t v with
      | Some above => (keep None (Some v) ab [] false, if rows_eqb above ab then [] else [2%nat])
      | None => (keep None (Some v) ab [] false, [3%nat])
      end
    | _, _ => (keep None (o_shown s) (o_above s) (o_pending s) (o_alt s), [])
    end
  | SPrint body =>
    if o_alt s then (keep (o_latest s) (o_shown s) (o_above s) (o_pending s) true, [])
    else (keep (o_latest s) (o_shown s) (o_above s) (o_pending s ++ print_rows (vW t) body) false, [])
  | SClear =>
    if o_alt s then (keep (o_latest s) (o_shown s) (o_above s) (o_pending s) true, [])
    else (keep (o_latest s) (o_shown s) (firstn (top (vH t) (vmain t)) (tape (vmain t))) (o_pending s) false, [])
  | SEnterAlt => (keep (o_latest s) (o_shown s) (o_above s) (o_pending s) true, [])
  | SExitAlt => (keep (o_latest s) (o_shown s) (o_above s) (o_pending s) false, [])
  | SResizeAlt _ _ | SOther => (keep (o_latest s) (o_shown s) (o_above s) (o_pending s) (o_alt s), [])
  end.

Fixpoint o_run (shared : bool) (s : ostate) (ops : list (sop * list tok)) (i : nat) : list (nat * fail_code) :=
  match ops with
  | [] => []
  | (o, out) :: rest =>
    let '(s', fails) := o_step shared s o out in
    map (fun c => (i, c)) fails ++ o_run shared s' rest (S i)
  end.

Definition o_init (w h : nat) (history : list row) (used : nat) : ostate :=
  {| o_vt := vt_init w h history used; o_latest := None; o_shown := None; o_above := history; o_pending := []; o_alt := false |}.
