(* Executable statement of C20 over observables (used by the theorems and,
   on real observations, by the violation search). *)
From Coq Require Import ZArith Bool.
Open Scope Z_scope.

(* the next whole multiple of d strictly after n *)
Definition next_multiple (n d : Z) : Z := n - n mod d + d.

(* An observation of a real Every command: [lo,hi] brackets the instant read
   inside Every, ts is the time handed to the callback. *)
Definition every_not_early (lo d ts : Z) : bool := next_multiple lo d <=? ts.
(* An observation of a real Tick command: lo = instant before creation. *)
Definition tick_not_early (lo d ts : Z) : bool := lo + d <=? ts.
(* delay computed by the model must be the one to the next multiple, never a period more *)
Definition every_delay_ok (n d w : Z) : bool :=
  (0 <? w) && (w <=? d) && ((n + w) mod d =? 0).

(* Observations of real runs (K2).  lo/hi: absolute ns bracketing the
   constructor; el: monotonic ns from lo to the time handed to the callback;
   el_ctl: same for a control timer armed right after the constructor for the
   Spec's delay; tol: clock-reading tolerance in ns. *)
Definition obs_not_early (every : bool) (lo d el tol : Z) : bool :=
  if every then next_multiple lo d - lo <=? el + tol else d <=? el + tol.
(* fired at least half a period after a control timer armed for the same instant *)
Definition obs_late (d el el_ctl : Z) : bool := d <=? 2 * (el - el_ctl).
