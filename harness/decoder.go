package main

import (
	"bufio"
	"context"
	"encoding/json"
	"errors"
	"fmt"
	"io"
	"os"
	"strings"
	"sync"
	"sync/atomic"
	"time"

	tea "github.com/charmbracelet/bubbletea"
)

func init() { cmds["decoder"] = decoderMain }

type decIn struct {
	ID     int     `json:"id"`
	Op     string  `json:"op"` // detect | read
	B      []int   `json:"b,omitempty"`
	More   bool    `json:"more,omitempty"`
	Chunks [][]int `json:"chunks,omitempty"`
	Err    string  `json:"err,omitempty"` // eof | fail
	Cancel int     `json:"cancel"`        // -1: never
	// the whole input is pending at once: a Read gets as many bytes as it asks for (the chunks only say what a reader
	// with a 256-byte buffer sees)
	Greedy bool `json:"greedy,omitempty"`
	// the last chunk is returned TOGETHER with the error (io.Reader allows n > 0 with err != nil)
	ErrWithLast bool `json:"err_with_last,omitempty"`
}

type decOut struct {
	ID    int      `json:"id"`
	W     int      `json:"w"`
	Msg   string   `json:"msg,omitempty"`
	Panic string   `json:"panic,omitempty"`
	Msgs  []string `json:"msgs,omitempty"`
	Strs  []string `json:"strs,omitempty"` // for every KeyMsg in Msgs its String(), "" for other messages
	Why   string   `json:"why,omitempty"`
	Ref   []string `json:"ref,omitempty"`   // accounting reference loop over the real detectOneMsg
	RefW  []int    `json:"ref_w,omitempty"` // widths of the reference runs
	At    []int    `json:"at,omitempty"`    // for every message: how many Read calls had been made when it was delivered
}

func toBytes(l []int) []byte {
	b := make([]byte, len(l))
	for i, v := range l {
		b[i] = byte(v)
	}
	return b
}

var errScripted = errors.New("scripted read failure")

type scriptReader struct {
	errWithLast bool
	greedy      bool
	chunks      [][]byte
	final       error
	reads       int32
	sent        func() int // messages sent so far (deliveryPoints)
	marks       []int      // its value at the start of every Read
}

func (s *scriptReader) Read(p []byte) (int, error) {
	atomic.AddInt32(&s.reads, 1)
	if s.sent != nil {
		s.marks = append(s.marks, s.sent())
	}
	if len(s.chunks) == 0 {
		return 0, s.final
	}
	if s.greedy {
		n := 0
		for n < len(p) && len(s.chunks) > 0 {
			k := copy(p[n:], s.chunks[0])
			n += k
			if k == len(s.chunks[0]) {
				s.chunks = s.chunks[1:]
			} else {
				s.chunks[0] = s.chunks[0][k:]
			}
		}
		return n, nil
	}
	c := s.chunks[0]
	if len(c) > len(p) {
		panic("scripted chunk larger than the read buffer")
	}
	s.chunks = s.chunks[1:]
	if s.errWithLast && len(s.chunks) == 0 {
		return copy(p, c), s.final
	}
	return copy(p, c), nil
}

func runDetect(in decIn) (out decOut) {
	out.ID = in.ID
	if atomic.LoadInt32(&decStalls) >= 3 {
		out.Panic = "skipped after stalls"
		return out
	}
	done := make(chan decOut, 1)
	go func() {
		o := decOut{ID: in.ID}
		defer func() {
			if r := recover(); r != nil {
				o.Panic = fmt.Sprint(r)
			}
			done <- o
		}()
		w, m := tea.VerifDetectOneMsg(toBytes(in.B), in.More)
		o.W = w
		o.Msg = tea.VerifDescribeMsg(m)
	}()
	select {
	case o := <-done:
		return o
	case <-time.After(4 * time.Second):
		atomic.AddInt32(&decStalls, 1)
		out.Panic = "STALL: detectOneMsg did not return within 4s"
		return out
	}
}

// refLoop is the accounting the property states, executed with the real
// detectOneMsg: runs are adjacent, in order, non-empty; bytes are carried to
// the next read only when detectOneMsg asks for more.
// At the end of the input (the scripted error) nothing can complete an event any more: what is still held back is
// decoded as it stands; so is a last chunk that arrives together with the error.
func refLoop(chunks [][]int, errWithLast bool) (msgs []string, widths []int) {
	defer func() {
		if r := recover(); r != nil {
			msgs = append(msgs, "PANIC "+fmt.Sprint(r))
		}
	}()
	var left []byte
	chunks = append(append([][]int{}, chunks...), nil) // the final read: no bytes, the error
	for k, c := range chunks {
		b := append(append([]byte{}, left...), toBytes(c)...)
		more := len(c) == 256
		if k == len(chunks)-1 || (errWithLast && k == len(chunks)-2) {
			more = false
		}
		i := 0
		for i < len(b) {
			w, m := tea.VerifDetectOneMsg(b[i:], more)
			if w <= 0 {
				break
			}
			msgs = append(msgs, tea.VerifDescribeMsg(m))
			widths = append(widths, w)
			i += w
		}
		if i > len(b) {
			i = len(b)
		}
		left = append([]byte{}, b[i:]...)
	}
	return msgs, widths
}

// stalls seen so far: after a few the verdict is settled and the remaining cases are skipped (each stalled call
// keeps spinning on a core for good)
var decStalls int32

func runRead(in decIn) decOut {
	out := decOut{ID: in.ID}
	if atomic.LoadInt32(&decStalls) >= 3 {
		out.Why = "skipped"
		return out
	}
	type refRes struct {
		m []string
		w []int
	}
	refc := make(chan refRes, 1)
	go func() {
		defer func() {
			if p := recover(); p != nil {
				refc <- refRes{}
			}
		}()
		m, w := refLoop(in.Chunks, in.ErrWithLast)
		refc <- refRes{m, w}
	}()
	select {
	case rr := <-refc:
		out.Ref, out.RefW = rr.m, rr.w
	case <-time.After(4 * time.Second):
		atomic.AddInt32(&decStalls, 1)
		out.Why = "stall"
		out.Msgs = []string{}
		return out
	}
	sr := &scriptReader{final: io.EOF, greedy: in.Greedy, errWithLast: in.ErrWithLast}
	if in.Err == "fail" {
		sr.final = errScripted
	}
	for _, c := range in.Chunks {
		sr.chunks = append(sr.chunks, toBytes(c))
	}
	ctx, cancel := context.WithCancel(context.Background())
	defer cancel()
	msgs := make(chan tea.Msg)
	total := 0
	for _, c := range in.Chunks {
		total += len(c)
	}
	var flood int32
	var mu sync.Mutex
	var got, strs []string
	consumerDone := make(chan struct{})
	stop := make(chan struct{})
	go func() {
		defer close(consumerDone)
		n := 0
		for {
			if in.Cancel >= 0 && n >= in.Cancel {
				cancel()
				return
			}
			select {
			case m := <-msgs:
				if n > total+16 {
					// more messages than input bytes: the reader is emitting without consuming
					atomic.StoreInt32(&flood, 1)
					cancel()
					return
				}
				mu.Lock()
				got = append(got, tea.VerifDescribeMsg(m))
				if k, ok := m.(tea.KeyMsg); ok {
					strs = append(strs, k.String())
				} else {
					strs = append(strs, "")
				}
				mu.Unlock()
				n++
			case <-stop:
				return
			}
		}
	}()
	type res struct {
		err error
		pan string
	}
	done := make(chan res, 1)
	go func() {
		var r res
		defer func() {
			if p := recover(); p != nil {
				r.pan = fmt.Sprint(p)
			}
			done <- r
		}()
		r.err = tea.VerifReadAnsiInputs(ctx, msgs, sr)
	}()
	select {
	case r := <-done:
		switch {
		case r.pan != "":
			out.Why = "panic"
			out.Panic = r.pan
		case r.err == nil:
			out.Why = "nil"
		case errors.Is(r.err, context.Canceled):
			out.Why = "cancel"
		case errors.Is(r.err, io.EOF):
			out.Why = "err"
		case errors.Is(r.err, errScripted):
			out.Why = "err"
		default:
			out.Why = "other:" + r.err.Error()
		}
		if out.Why == "err" && !strings.Contains(r.err.Error(), "error reading input") {
			out.Why = "other:" + r.err.Error()
		}
	case <-time.After(4 * time.Second):
		atomic.AddInt32(&decStalls, 1)
		out.Why = "stall"
	}
	close(stop)
	<-consumerDone
	if atomic.LoadInt32(&flood) == 1 {
		out.Why = "flood"
	}
	mu.Lock()
	out.Msgs = append([]string{}, got...)
	out.Strs = append([]string{}, strs...)
	mu.Unlock()
	if in.Cancel < 0 && !in.Greedy && out.Why == "err" {
		out.At = deliveryPoints(in, len(out.Msgs))
	}
	return out
}

// deliveryPoints runs the same script once more with a channel large enough to hold every message (nobody receives
// while the reader runs, so nothing races): at the start of every Read the number of messages sent so far is noted,
// which tells during which read each message was sent.  nil when this second run does not reproduce the first.
func deliveryPoints(in decIn, want int) []int {
	sr := &scriptReader{final: io.EOF, errWithLast: in.ErrWithLast}
	if in.Err == "fail" {
		sr.final = errScripted
	}
	for _, c := range in.Chunks {
		sr.chunks = append(sr.chunks, toBytes(c))
	}
	msgs := make(chan tea.Msg, want+8)
	sr.sent = func() int { return len(msgs) }
	done := make(chan struct{})
	go func() {
		defer func() { _ = recover(); close(done) }()
		_ = tea.VerifReadAnsiInputs(context.Background(), msgs, sr)
	}()
	select {
	case <-done:
	case <-time.After(4 * time.Second):
		return nil
	}
	if len(msgs) != want {
		return nil
	}
	at := make([]int, 0, want)
	for k := 0; k < len(sr.marks); k++ {
		hi := want
		if k+1 < len(sr.marks) {
			hi = sr.marks[k+1]
		}
		for j := sr.marks[k]; j < hi; j++ {
			at = append(at, k+1)
		}
	}
	return at
}

func decoderMain(args []string) {
	var inPath string
	c := parseCommon("decoder", args, nil)
	_ = c
	inPath = c.fs.Arg(0)
	f, err := os.Open(inPath)
	if err != nil {
		fmt.Fprintln(os.Stderr, err)
		os.Exit(2)
	}
	defer f.Close()
	var ins []decIn
	sc := bufio.NewScanner(f)
	sc.Buffer(make([]byte, 1<<20), 1<<28)
	for sc.Scan() {
		if len(sc.Bytes()) == 0 {
			continue
		}
		var in decIn
		in.Cancel = -1
		if err := json.Unmarshal(sc.Bytes(), &in); err != nil {
			fmt.Fprintln(os.Stderr, "bad input line:", err)
			os.Exit(2)
		}
		ins = append(ins, in)
	}
	outs := make([]decOut, len(ins))
	var wg sync.WaitGroup
	sem := make(chan struct{}, 16)
	for i := range ins {
		wg.Add(1)
		sem <- struct{}{}
		go func(i int) {
			defer wg.Done()
			defer func() { <-sem }()
			if ins[i].Op == "detect" {
				outs[i] = runDetect(ins[i])
			} else {
				outs[i] = runRead(ins[i])
			}
		}(i)
	}
	wg.Wait()
	em := newEmitter(c.out)
	for _, o := range outs {
		em.emit(o)
	}
	em.close()
}
