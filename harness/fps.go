package main

import (
	"encoding/json"
	"fmt"
	"os"
	"strconv"

	tea "github.com/charmbracelet/bubbletea"
)

func init() { cmds["fps"] = fpsMain }

// fps <n>... : prints {"fps":n,"ns":interval} per argument
func fpsMain(args []string) {
	for _, a := range args {
		n, err := strconv.ParseInt(a, 10, 64)
		if err != nil {
			fmt.Fprintln(os.Stderr, err)
			os.Exit(2)
		}
		b, _ := json.Marshal(map[string]int64{"fps": n, "ns": int64(tea.VerifFramerate(int(n)))})
		fmt.Println(string(b))
	}
}
