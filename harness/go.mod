module verifharness

go 1.23.0

require (
	github.com/charmbracelet/bubbletea v0.0.0
	golang.org/x/sys v0.32.0
)

require (
	github.com/aymanbagabas/go-osc52/v2 v2.0.1 // indirect
	github.com/charmbracelet/colorprofile v0.2.3-0.20250311203215-f60798e515dc // indirect
	github.com/charmbracelet/lipgloss v1.1.0 // indirect
	github.com/charmbracelet/x/ansi v0.8.0 // indirect
	github.com/charmbracelet/x/cellbuf v0.0.13-0.20250311204145-2c3ea96c31dd // indirect
	github.com/charmbracelet/x/term v0.2.1 // indirect
	github.com/lucasb-eyer/go-colorful v1.2.0 // indirect
	github.com/mattn/go-isatty v0.0.20 // indirect
	github.com/mattn/go-runewidth v0.0.16 // indirect
	github.com/muesli/ansi v0.0.0-20230316100256-276c6243b2f6 // indirect
	github.com/muesli/cancelreader v0.2.2 // indirect
	github.com/muesli/termenv v0.16.0 // indirect
	github.com/rivo/uniseg v0.4.7 // indirect
	github.com/xo/terminfo v0.0.0-20220910002029-abceb7e1c41e // indirect
	golang.org/x/sync v0.13.0 // indirect
)

replace github.com/charmbracelet/bubbletea => /repo
