// Correspondence harness (K2): runs the real bubbletea code on generated
// inputs and writes one JSON record per case; /verif/check evaluates the Coq
// model and the Spec predicates on the same records.
package main

import (
	"bufio"
	"encoding/json"
	"flag"
	"fmt"
	"os"
)

type emitter struct {
	w *bufio.Writer
	n int
}

func newEmitter(path string) *emitter {
	f, err := os.Create(path)
	if err != nil {
		fmt.Fprintln(os.Stderr, err)
		os.Exit(2)
	}
	return &emitter{w: bufio.NewWriterSize(f, 1<<20)}
}

func (e *emitter) emit(v interface{}) {
	b, err := json.Marshal(v)
	if err != nil {
		panic(err)
	}
	e.w.Write(b)
	e.w.WriteByte('\n')
	e.n++
}

func (e *emitter) close() { e.w.Flush() }

// splitmix64: every random choice derives from the seed.
type rng struct{ s uint64 }

func (r *rng) next() uint64 {
	r.s += 0x9e3779b97f4a7c15
	z := r.s
	z = (z ^ (z >> 30)) * 0xbf58476d1ce4e5b9
	z = (z ^ (z >> 27)) * 0x94d049bb133111eb
	return z ^ (z >> 31)
}
func (r *rng) intn(n int) int {
	if n <= 0 {
		return 0
	}
	return int(r.next() % uint64(n))
}
func (r *rng) chance(num, den int) bool { return r.intn(den) < num }
func (r *rng) fork() *rng               { return &rng{s: r.next()} }

var cmds = map[string]func(args []string){}

func main() {
	if len(os.Args) < 2 {
		fmt.Fprintln(os.Stderr, "usage: harness <family> [flags]")
		os.Exit(2)
	}
	f, ok := cmds[os.Args[1]]
	if !ok {
		fmt.Fprintln(os.Stderr, "unknown family", os.Args[1])
		os.Exit(2)
	}
	f(os.Args[2:])
}

type commonFlags struct {
	seed uint64
	tier string
	out  string
	fs   *flag.FlagSet
}

func parseCommon(name string, args []string, extra func(fs *flag.FlagSet)) *commonFlags {
	c := &commonFlags{}
	fs := flag.NewFlagSet(name, flag.ExitOnError)
	fs.Uint64Var(&c.seed, "seed", 1, "PRNG seed")
	fs.StringVar(&c.tier, "tier", "quick", "quick|thorough")
	fs.StringVar(&c.out, "out", "/dev/stdout", "output jsonl")
	if extra != nil {
		extra(fs)
	}
	fs.Parse(args)
	c.fs = fs
	return c
}
