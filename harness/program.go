package main

// Family "program": runs real bubbletea Programs from JSON scenarios and
// records what happened (see program_types.go for the shapes).
//
//	harness program -out results.jsonl scenarios.jsonl

import (
	"bufio"
	"bytes"
	"context"
	"encoding/json"
	"errors"
	"flag"
	"fmt"
	"io"
	"os"
	"os/exec"
	"os/signal"
	"runtime"
	"strings"
	"sync"
	"sync/atomic"
	"syscall"
	"time"

	tea "github.com/charmbracelet/bubbletea"
	"golang.org/x/sys/unix"
)

func init() { cmds["program"] = programMain }

// pRun is the per-scenario runtime: program, input plumbing, Run's outcome.
type pRun struct {
	h      *harnessState
	sc     *pScenario
	p      *tea.Program
	cancel context.CancelFunc

	ptyM, ptyS   *os.File
	ptyInOnly    bool
	ptyHung      bool
	termios0     interface{}
	pipeR, pipeW *os.File
	pipeClosed   bool
	file         *os.File
	reader       *pReader
	ioMu         sync.Mutex

	// outcome of Run (guarded by h.mu)
	runReturned  bool
	runErr       error
	runModel     tea.Model
	runPanic     string
	outAtReturn  int
	canaryOn     bool
	canaryDone   chan struct{}
	canaryStolen int
	canaryN      int

	watchdog time.Duration
}

func (r *pRun) setup() error {
	sc, h := r.sc, r.h
	var opts []tea.ProgramOption
	opts = append(opts, tea.WithOutput(h.out))
	o := sc.Opts
	if o.Alt {
		opts = append(opts, tea.WithAltScreen())
	}
	switch o.Mouse {
	case "cell":
		opts = append(opts, tea.WithMouseCellMotion())
	case "all":
		opts = append(opts, tea.WithMouseAllMotion())
	case "", "none":
	default:
		h.addErr("unknown mouse mode %q", o.Mouse)
	}
	if o.NoPaste {
		opts = append(opts, tea.WithoutBracketedPaste())
	}
	if o.Focus {
		opts = append(opts, tea.WithReportFocus())
	}
	if o.NoCatch {
		opts = append(opts, tea.WithoutCatchPanics())
	}
	if o.Compressor {
		opts = append(opts, tea.WithANSICompressor())
	}
	if o.FPS != 0 {
		opts = append(opts, tea.WithFPS(o.FPS))
	}
	if o.NoSigHandler == nil || *o.NoSigHandler {
		opts = append(opts, tea.WithoutSignalHandler())
	}
	if o.NoSignals {
		opts = append(opts, tea.WithoutSignals())
	}
	if o.NoRenderer {
		opts = append(opts, tea.WithoutRenderer())
	}
	if o.Filter != nil {
		opts = append(opts, tea.WithFilter(h.filter))
	}
	if sc.Ctx {
		ctx, cancel := context.WithCancel(context.Background())
		r.cancel = cancel
		opts = append(opts, tea.WithContext(ctx))
	}
	initial := toBytes(sc.Input.Bytes)
	switch sc.Input.Kind {
	case "", "none":
		opts = append(opts, tea.WithInput(nil))
	case "pipe":
		pr, pw, err := os.Pipe()
		if err != nil {
			return err
		}
		r.pipeR, r.pipeW = pr, pw
		opts = append(opts, tea.WithInput(pr))
		if len(initial) > 0 {
			r.writePipe(initial)
		}
		if sc.Input.End == "eof" {
			r.closeInput()
		}
	case "file":
		f, err := os.CreateTemp("", "verif-input-*")
		if err != nil {
			return err
		}
		if _, err := f.Write(initial); err != nil {
			return err
		}
		if _, err := f.Seek(0, io.SeekStart); err != nil {
			return err
		}
		r.file = f
		opts = append(opts, tea.WithInput(f))
	case "ptyin":
		// a real terminal device for input only (the output stays observable in the buffer): raw mode is entered and
		// must be left again; "pty-hangup" closes the master so that restoring it fails at exit
		m, sl, err := openPty()
		if err != nil {
			return err
		}
		r.ptyM, r.ptyS = m, sl
		r.ptyInOnly = true
		if t, err := getTermios(sl); err == nil {
			r.termios0 = t
		}
		opts = append(opts, tea.WithInput(sl))
	case "pty":
		// a real terminal device for input and output: raw mode, window size, SIGWINCH
		m, sl, err := openPty()
		if err != nil {
			return err
		}
		r.ptyM, r.ptyS = m, sl
		w0, h0 := sc.Input.W, sc.Input.H
		if w0 == 0 {
			w0, h0 = 80, 24
		}
		if err := setWinsize(m, w0, h0); err != nil {
			return err
		}
		if t, err := getTermios(sl); err == nil {
			r.termios0 = t
		}
		opts = append(opts, tea.WithInput(sl), tea.WithOutput(sl))
		go func() {
			buf := make([]byte, 4096)
			for {
				n, err := m.Read(buf)
				if n > 0 {
					_, _ = h.out.Write(buf[:n])
				}
				if err != nil {
					return
				}
			}
		}()
	case "ptyout", "ptyout+pipe":
		// a real terminal device for output only; the input is none, or a pipe (a program whose input is redirected
		// still learns the window size from its output)
		m, sl, err := openPty()
		if err != nil {
			return err
		}
		r.ptyM, r.ptyS = m, sl
		w0, h0 := sc.Input.W, sc.Input.H
		if w0 == 0 {
			w0, h0 = 80, 24
		}
		if err := setWinsize(m, w0, h0); err != nil {
			return err
		}
		if t, err := getTermios(sl); err == nil {
			r.termios0 = t
		}
		if sc.Input.Kind == "ptyout" {
			opts = append(opts, tea.WithInput(nil), tea.WithOutput(sl))
		} else {
			pr, pw, err := os.Pipe()
			if err != nil {
				return err
			}
			r.pipeR, r.pipeW = pr, pw
			opts = append(opts, tea.WithInput(pr), tea.WithOutput(sl))
		}
		go func() {
			buf := make([]byte, 4096)
			for {
				n, err := m.Read(buf)
				if n > 0 {
					_, _ = h.out.Write(buf[:n])
				}
				if err != nil {
					return
				}
			}
		}()
	case "tty":
		// a new TTY is opened for input by Run itself; fails when the process has no controlling terminal
		opts = append(opts, tea.WithInputTTY())
	case "reader":
		final := io.EOF
		if sc.Input.End == "fail" {
			final = errPInputFail
		}
		r.reader = newPReader(initial, final)
		opts = append(opts, tea.WithInput(r.reader))
	default:
		return fmt.Errorf("unknown input kind %q", sc.Input.Kind)
	}
	r.p = tea.NewProgram(pModel{ver: 0, h: h}, opts...)
	return nil
}

func (r *pRun) writePipe(b []byte) {
	r.ioMu.Lock()
	defer r.ioMu.Unlock()
	if r.pipeW == nil || r.pipeClosed {
		r.h.addErr("input: pipe write end is closed")
		return
	}
	_ = r.pipeW.SetWriteDeadline(time.Now().Add(r.watchdog))
	if _, err := r.pipeW.Write(b); err != nil {
		r.h.addErr("input: pipe write: %v", err)
	}
}

func (r *pRun) closeInput() {
	r.ioMu.Lock()
	defer r.ioMu.Unlock()
	if r.pipeW != nil && !r.pipeClosed {
		r.pipeClosed = true
		_ = r.pipeW.Close()
	}
	if r.reader != nil {
		r.reader.release()
	}
}

func (r *pRun) startRun() {
	h := r.h
	h.mu.Lock()
	if h.runStarted {
		h.mu.Unlock()
		return
	}
	h.runStarted = true
	h.runStartedAt = time.Now()
	h.changedLocked()
	h.mu.Unlock()
	go func() {
		var m tea.Model
		var err error
		panicked := true
		defer func() {
			pv := ""
			if panicked {
				pv = fmt.Sprint(recover())
			}
			h.mu.Lock()
			hung := r.ptyHung
			h.mu.Unlock()
			if r.ptyS != nil && !r.ptyInOnly && !hung {
				h.out.SyncThrough(r.ptyS, 3*time.Second)
			}
			n := h.out.Len()
			h.update(func() {
				h.runDone = true
				r.outAtReturn = n
				if panicked {
					r.runPanic = pv
				} else {
					r.runReturned, r.runModel, r.runErr = true, m, err
				}
			})
		}()
		m, err = r.p.Run()
		panicked = false
	}()
}

func (r *pRun) startFdCanary(d time.Duration) {
	h := r.h
	h.mu.Lock()
	r.canaryOn = true
	h.mu.Unlock()
	r.canaryDone = make(chan struct{})
	go func() {
		defer close(r.canaryDone)
		end := time.Now().Add(d)
		stolen, n := 0, 0
		for time.Now().Before(end) {
			fd, err := unix.Open("/dev/null", unix.O_RDONLY|unix.O_CLOEXEC, 0)
			if err != nil {
				continue
			}
			n++
			time.Sleep(150 * time.Microsecond)
			var st unix.Stat_t
			if err := unix.Fstat(fd, &st); err == unix.EBADF {
				stolen++
				continue
			}
			if err := unix.Close(fd); err == unix.EBADF {
				stolen++
			}
		}
		h.mu.Lock()
		r.canaryStolen, r.canaryN = stolen, n
		h.mu.Unlock()
	}()
}

func (r *pRun) startSenders() {
	h := r.h
	h.mu.Lock()
	if h.sendersOn {
		h.mu.Unlock()
		return
	}
	h.sendersOn = true
	h.changedLocked()
	h.mu.Unlock()
	for i, list := range r.sc.Senders {
		go func(i int, list []*pMsgSpec) {
			for k, ms := range list {
				msg := h.buildMsg(ms)
				key := pKeyOf(msg)
				h.log(pEvent{Ev: "SendBegin", Sender: pInt(i), K: pInt(k), Key: key})
				r.p.Send(msg)
				h.log(pEvent{Ev: "SendDone", Sender: pInt(i), K: pInt(k), Key: key})
			}
			h.update(func() { h.sendDone[i] = true })
		}(i, list)
	}
}

func (h *harnessState) sendersAllDoneLocked() bool {
	if !h.sendersOn {
		return true
	}
	for _, d := range h.sendDone {
		if !d {
			return false
		}
	}
	return true
}

func (h *harnessState) apiAllReturnedLocked() bool {
	for _, a := range h.api {
		if !a.Returned {
			return false
		}
	}
	return true
}

// startAPI starts n goroutines calling one Program method; it returns once
// every goroutine is about to make its call.
func (r *pRun) startAPI(kind string, n, step int, text ...string) {
	h := r.h
	var call func()
	switch kind {
	case "wait":
		call = func() { r.p.Wait() }
	case "send":
		call = func() { r.p.Send(userMsg{7777}) }
	case "println":
		txt := "x"
		if len(text) > 0 && text[0] != "" {
			txt = text[0]
		}
		call = func() { r.p.Println(txt) }
	case "printf":
		if len(text) > 0 && text[0] != "" {
			txt := text[0]
			call = func() { r.p.Printf("%s", txt) }
		} else {
			call = func() { r.p.Printf("%d", 1) }
		}
	case "quit":
		call = func() { r.p.Quit() }
	case "kill":
		call = func() { r.p.Kill() }
	default:
		h.addErr("step %d: unknown api kind %q", step, kind)
		return
	}
	if n <= 0 {
		n = 1
	}
	var ready sync.WaitGroup
	for j := 0; j < n; j++ {
		ready.Add(1)
		go func() {
			var idx int
			h.update(func() {
				idx = len(h.api)
				h.api = append(h.api, pAPI{Kind: kind, I: idx, Step: step, StartedBeforeReturn: !h.runDone})
			})
			ready.Done()
			call()
			h.update(func() { h.api[idx].Returned = true })
		}()
	}
	ready.Wait()
	// let the callers get into their call
	runtime.Gosched()
	time.Sleep(200 * time.Microsecond)
}

// timed runs f in its own goroutine and reports whether it finished in time.
func pTimed(deadline time.Time, f func()) bool {
	done := make(chan struct{})
	go func() { defer close(done); f() }()
	t := time.NewTimer(time.Until(deadline))
	defer t.Stop()
	select {
	case <-done:
		return true
	case <-t.C:
		return false
	}
}

func (r *pRun) idleNow() bool {
	h := r.h
	h.mu.Lock()
	sd := h.sendersAllDoneLocked()
	h.mu.Unlock()
	if !sd || atomic.LoadInt64(&h.inflight) != 0 {
		return false
	}
	// quiet for 30 ms - longer when the machine is so loaded that goroutines of this very process are scheduled late
	// (a hand-over in progress could then sit unscheduled for that long without being activity)
	need := int64(30 * time.Millisecond)
	if g := 8 * schedLag(); g > need {
		need = g
	}
	if need > int64(400*time.Millisecond) {
		need = int64(400 * time.Millisecond)
	}
	return time.Now().UnixNano()-atomic.LoadInt64(&h.lastAct) >= need
}

// schedLag: how late a goroutine that sleeps 1 ms at a time has recently been woken (worst of the last ~64 wake-ups), in ns.
var (
	lagOnce sync.Once
	lagRing [64]int64
	lagPos  int64
)

func schedLag() int64 {
	lagOnce.Do(func() {
		go func() {
			for {
				t0 := time.Now()
				time.Sleep(time.Millisecond)
				late := int64(time.Since(t0)) - int64(time.Millisecond)
				if late < 0 {
					late = 0
				}
				i := atomic.AddInt64(&lagPos, 1)
				atomic.StoreInt64(&lagRing[i%64], late)
			}
		}()
	})
	var worst int64
	for i := range lagRing {
		if v := atomic.LoadInt64(&lagRing[i]); v > worst {
			worst = v
		}
	}
	return worst
}

// step executes one script step; false means it timed out.
func (r *pRun) step(i int, st pStep) bool {
	h := r.h
	deadline := time.Now().Add(r.watchdog)
	switch {
	case st.Wait != "":
		switch {
		case st.Wait == "started":
			return h.waitFor(deadline, func() bool { return h.started || h.runDone })
		case st.Wait == "returned":
			return h.waitFor(deadline, func() bool { return h.runDone })
		case st.Wait == "api":
			return h.waitFor(deadline, h.apiAllReturnedLocked)
		case st.Wait == "idle":
			for !r.idleNow() {
				if time.Now().After(deadline) {
					return false
				}
				time.Sleep(2 * time.Millisecond)
			}
			return true
		case strings.HasPrefix(st.Wait, "pause:"):
			label := st.Wait[len("pause:"):]
			return h.waitFor(deadline, func() bool { return h.paused[label] > 0 })
		}
		h.addErr("step %d: unknown wait %q", i, st.Wait)
		return true
	}
	switch st.Do {
	case "run":
		r.startRun()
	case "release":
		h.update(func() {
			if st.All {
				h.open[st.Label] = true
			} else {
				h.permits[st.Label]++
			}
		})
	case "gate":
		h.openGate(st.Name)
	case "send", "go-send":
		msg := h.buildMsg(st.Msg)
		key := pKeyOf(msg)
		f := func() {
			h.log(pEvent{Ev: "SendBegin", Sender: pInt(-1), K: pInt(i), Key: key})
			r.p.Send(msg)
			h.log(pEvent{Ev: "SendDone", Sender: pInt(-1), K: pInt(i), Key: key})
		}
		if st.Do == "go-send" {
			go f()
			return true
		}
		return pTimed(deadline, f)
	case "quit":
		return pTimed(deadline, r.p.Quit)
	case "kill":
		r.startAPI("kill", 1, i)
	case "fd-canary":
		// for st.Us microseconds keep the lowest free descriptor number occupied by a descriptor of our own and watch it:
		// if somebody closes a descriptor a second time, the number it hits is ours (the first close made it the lowest
		// free one)
		r.startFdCanary(time.Duration(st.Us) * time.Microsecond)
	case "cancel":
		if r.cancel == nil {
			h.addErr("step %d: cancel without ctx", i)
		} else {
			r.cancel()
		}
	case "input":
		b := toBytes(st.Bytes)
		switch {
		case r.pipeW != nil:
			r.writePipe(b)
		case r.reader != nil:
			r.reader.add(b)
		default:
			h.addErr("step %d: input kind %q takes no bytes", i, r.sc.Input.Kind)
		}
	case "close-input":
		r.closeInput()
	case "start-senders":
		r.startSenders()
	case "wait-senders":
		return h.waitFor(deadline, func() bool { return h.sendersOn && h.sendersAllDoneLocked() })
	case "sleep":
		time.Sleep(time.Duration(st.Us) * time.Microsecond)
	case "api":
		r.startAPI(st.Kind, st.N, i, st.Label)
	case "release-terminal":
		// the application hands the terminal over itself (Program.ReleaseTerminal)
		return pTimed(deadline, func() { _ = r.p.ReleaseTerminal() })
	case "restore-terminal":
		// n > 1: the calls follow each other without a pause (an application restoring a terminal that an Exec in
		// between had already taken back)
		return pTimed(deadline, func() {
			_ = r.p.RestoreTerminal()
			for k := 1; k < st.N; k++ {
				_ = r.p.RestoreTerminal()
			}
		})
	case "pty-hangup":
		if r.ptyM == nil {
			h.addErr("step %d: pty-hangup without a pty", i)
		} else {
			r.ptyHung = true
			_ = r.ptyM.Close()
		}
	case "winsize":
		if r.ptyM == nil {
			h.addErr("step %d: winsize without a pty", i)
		} else {
			if err := setWinsize(r.ptyM, st.W, st.H); err != nil {
				h.addErr("step %d: TIOCSWINSZ: %v", i, err)
			}
			if !st.Silent {
				if err := syscall.Kill(os.Getpid(), syscall.SIGWINCH); err != nil {
					h.addErr("step %d: kill: %v", i, err)
				}
			}
		}
	case "signal":
		sig := syscall.SIGINT
		if st.Sig == "term" {
			sig = syscall.SIGTERM
		}
		// the program registers its handler in a goroutine started by Run: give that goroutine ample time, so that
		// a process without any handler at this point is one where the program installed none
		h.mu.Lock()
		t0 := h.runStartedAt
		h.mu.Unlock()
		if d := 150*time.Millisecond - time.Since(t0); !t0.IsZero() && d > 0 {
			time.Sleep(d)
		}
		if err := syscall.Kill(os.Getpid(), sig); err != nil {
			h.addErr("step %d: kill: %v", i, err)
		}
	default:
		h.addErr("step %d: unknown step do=%q", i, st.Do)
	}
	return true
}

func pClassify(err error) string {
	switch {
	case err == nil:
		return "nil"
	case errors.Is(err, tea.ErrInterrupted):
		return "interrupted"
	case errors.Is(err, tea.ErrProgramKilled):
		return "killed"
	}
	return "other:" + err.Error()
}

func runProgramScenario(sc *pScenario) (res pResult) {
	t0 := time.Now()
	res.ID = sc.ID
	res.FinalVer = -1
	defer func() {
		if p := recover(); p != nil {
			res.Errors = append(res.Errors, fmt.Sprintf("harness panic: %v", p))
		}
		res.WallMs = time.Since(t0).Milliseconds()
		if res.Events == nil {
			res.Events = []pEvent{}
		}
		if res.API == nil {
			res.API = []pAPI{}
		}
		if res.SendersDone == nil {
			res.SendersDone = []bool{}
		}
		if res.Output == nil {
			res.Output = []int{}
		}
	}()
	if sc.WatchdogMs <= 0 {
		sc.WatchdogMs = 3000
	}
	if sc.Gomaxprocs > 0 {
		old := runtime.GOMAXPROCS(sc.Gomaxprocs)
		defer runtime.GOMAXPROCS(old)
	}
	h := newHarnessState(sc)
	r := &pRun{h: h, sc: sc, watchdog: time.Duration(sc.WatchdogMs) * time.Millisecond}
	if err := r.setup(); err != nil {
		res.Errors = append(res.Errors, "setup: "+err.Error())
		return res
	}

	hasRun, hasStartSenders := false, false
	for _, st := range sc.Script {
		hasRun = hasRun || st.Do == "run"
		hasStartSenders = hasStartSenders || st.Do == "start-senders"
	}
	abort := make(chan struct{})
	if !hasStartSenders && len(sc.Senders) > 0 {
		go func() {
			h.waitFor(time.Now().Add(24*time.Hour), func() bool { return h.started || h.runDone || h.openAll })
			select {
			case <-abort:
			default:
				r.startSenders()
			}
		}()
	}
	if !hasRun {
		r.startRun()
	}

	// controller
	var cur int64 = -1
	timedOut := make(chan int, 1)
	ctlDone := make(chan struct{})
	go func() {
		defer close(ctlDone)
		for i, st := range sc.Script {
			atomic.StoreInt64(&cur, int64(i))
			if !r.step(i, st) {
				timedOut <- i
				return
			}
		}
	}()
	outer := time.NewTimer(r.watchdog*time.Duration(len(sc.Script)+2) + 2*time.Second)
	select {
	case <-ctlDone:
	case <-outer.C:
		res.ScriptTimeout = pInt(int(atomic.LoadInt64(&cur)))
		res.Errors = append(res.Errors, "controller exceeded the outer time limit")
	}
	outer.Stop()
	select {
	case i := <-timedOut:
		res.ScriptTimeout = pInt(i)
	default:
	}

	// final grace: let Run, the api callers and the senders finish
	grace := r.watchdog
	if res.ScriptTimeout != nil {
		grace = 100 * time.Millisecond
	}
	deadline := time.Now().Add(grace)
	h.mu.Lock()
	started := h.runStarted
	h.mu.Unlock()
	if started {
		if h.waitFor(deadline, func() bool { return h.runDone }) {
			h.waitFor(deadline, func() bool { return h.apiAllReturnedLocked() && h.sendersAllDoneLocked() })
		}
	}

	// snapshot (a pty is drained by a goroutine: let it catch up)
	if r.ptyM != nil && !r.ptyInOnly {
		last, quiet := h.out.Len(), 0
		for i := 0; i < 60 && quiet < 4; i++ {
			time.Sleep(5 * time.Millisecond)
			if n := h.out.Len(); n == last {
				quiet++
			} else {
				last, quiet = n, 0
			}
		}
	}
	out := h.out.Snapshot()
	h.mu.Lock()
	res.RunStarted = h.runStarted
	res.RunReturned = r.runReturned
	res.RunPanicked = r.runPanic
	if r.runReturned {
		res.RunErr = pClassify(r.runErr)
		if r.runErr != nil {
			res.RunErrText = r.runErr.Error()
		}
		if pm, ok := r.runModel.(pModel); ok {
			res.FinalVer = pm.ver
		}
	}
	if h.runDone {
		res.OutputAtReturn = r.outAtReturn
	} else {
		res.OutputAtReturn = -1
	}
	res.API = append([]pAPI{}, h.api...)
	res.SendersDone = append([]bool{}, h.sendDone...)
	res.Errors = append(res.Errors, h.errs...)
	for l, n := range h.paused {
		if n > 0 {
			res.PausedAtEnd = append(res.PausedAtEnd, l)
		}
	}
	apiOK := h.apiAllReturnedLocked()
	h.mu.Unlock()
	h.emu.Lock()
	res.Events = append([]pEvent{}, h.events...)
	h.emu.Unlock()
	res.Output = pToInts(out)
	if sc.Writes {
		res.Writes = h.out.Writes()
	}
	if r.canaryDone != nil {
		<-r.canaryDone
		h.mu.Lock()
		st := r.canaryStolen
		res.FdStolen, res.FdCanaries = &st, r.canaryN
		h.mu.Unlock()
	}
	if r.ptyS != nil && !r.ptyHung {
		t1, err := getTermios(r.ptyS)
		if t0, ok := r.termios0.(*unix.Termios); ok && err == nil {
			eq := termiosEqual(t0, t1)
			res.TermiosRestored = &eq
		}
	}
	if !res.RunReturned || !apiOK {
		buf := make([]byte, 1<<20)
		n := runtime.Stack(buf, true)
		if n > 6000 {
			n = 6000
		}
		res.Stuck = string(buf[:n])
	}

	// cleanup: stop whatever still runs, then unblock everything we blocked
	close(abort)
	if r.cancel != nil {
		r.cancel()
	}
	if !res.RunReturned {
		go r.p.Kill()
	}
	h.releaseEverything()
	r.closeInput()
	if r.pipeR != nil && res.RunReturned {
		_ = r.pipeR.Close()
	}
	if r.ptyM != nil {
		_ = r.ptyS.Close()
		if !r.ptyHung {
			_ = r.ptyM.Close()
		}
	}
	if r.file != nil {
		_ = r.file.Close()
		_ = os.Remove(r.file.Name())
	}
	return res
}

// runIsolated runs one scenario in a child harness process.
func runIsolated(sc *pScenario) pResult {
	fail := func(format string, a ...interface{}) pResult {
		return pResult{ID: sc.ID, Events: []pEvent{}, API: []pAPI{}, SendersDone: []bool{}, Output: []int{},
			FinalVer: -1, Crashed: true, CrashText: fmt.Sprintf(format, a...)}
	}
	c := *sc
	c.Isolate = false
	c.Child = true
	dir, err := os.MkdirTemp("", "verif-iso-*")
	if err != nil {
		return fail("mkdtemp: %v", err)
	}
	defer os.RemoveAll(dir)
	b, _ := json.Marshal(&c)
	if err := os.WriteFile(dir+"/in.jsonl", append(b, '\n'), 0o600); err != nil {
		return fail("write: %v", err)
	}
	exe, err := os.Executable()
	if err != nil {
		return fail("executable: %v", err)
	}
	wd := c.WatchdogMs
	if wd <= 0 {
		wd = 3000
	}
	limit := time.Duration(wd)*time.Millisecond*time.Duration(len(c.Script)+3) + 10*time.Second
	ctx, cancel := context.WithTimeout(context.Background(), limit)
	defer cancel()
	cmd := exec.CommandContext(ctx, exe, "program", "-out", dir+"/out.jsonl", dir+"/in.jsonl")
	var stderr bytes.Buffer
	cmd.Stdout = io.Discard
	cmd.Stderr = &stderr
	var cttyM, cttyS *os.File
	var cttyT0 interface{}
	if c.Ctty {
		// the child becomes the leader of a new session whose controlling terminal is a fresh pseudo-terminal: the
		// program can open /dev/tty (WithInputTTY); its line discipline is compared before and after from here
		m, sl, err := openPty()
		if err != nil {
			return fail("openpty: %v", err)
		}
		cttyM, cttyS = m, sl
		defer m.Close()
		defer sl.Close()
		if t, err := getTermios(sl); err == nil {
			cttyT0 = t
		}
		cmd.Stdin = sl
		cmd.SysProcAttr = &syscall.SysProcAttr{Setsid: true, Setctty: true, Ctty: 0}
		go func() { // keep the master drained
			buf := make([]byte, 4096)
			for {
				if _, err := m.Read(buf); err != nil {
					return
				}
			}
		}()
	}
	runErr := cmd.Run()
	tail := stderr.String()
	if len(tail) > 4000 {
		tail = tail[:4000]
	}
	ob, rerr := os.ReadFile(dir + "/out.jsonl")
	var res pResult
	if runErr != nil || rerr != nil || json.Unmarshal(bytes.TrimSpace(ob), &res) != nil {
		return fail("child: %v\n%s", runErr, tail)
	}
	if cttyS != nil {
		_ = cttyM
		if t1, err := getTermios(cttyS); err == nil {
			if t0, ok := cttyT0.(*unix.Termios); ok {
				eq := termiosEqual(t0, t1)
				res.TermiosRestored = &eq
			}
		}
	}
	return res
}

func programMain(args []string) {
	var noisy bool
	c := parseCommon("program", args, func(fs *flag.FlagSet) {
		fs.BoolVar(&noisy, "noisy", false, "keep bubbletea's own panic reports on stdout/stderr")
	})
	if c.fs.NArg() < 1 {
		fmt.Fprintln(os.Stderr, "usage: harness program -out results.jsonl scenarios.jsonl")
		os.Exit(2)
	}
	f, err := os.Open(c.fs.Arg(0))
	if err != nil {
		fmt.Fprintln(os.Stderr, err)
		os.Exit(2)
	}
	var scs []*pScenario
	needSig := false
	sc := bufio.NewScanner(f)
	sc.Buffer(make([]byte, 1<<20), 1<<28)
	for sc.Scan() {
		if len(bytes.TrimSpace(sc.Bytes())) == 0 {
			continue
		}
		s := &pScenario{}
		if err := json.Unmarshal(sc.Bytes(), s); err != nil {
			fmt.Fprintln(os.Stderr, "bad input line:", err)
			os.Exit(2)
		}
		for _, st := range s.Script {
			// in a child process (one scenario) the process stands for the application: it has a handler of its own
			// only where the application is the one responsible for signals (WithoutSignalHandler); otherwise a
			// signal that finds no handler takes the process down, and that is the observation
			appHandles := s.Opts.NoSigHandler == nil || *s.Opts.NoSigHandler
			needSig = needSig || (st.Do == "signal" && !s.Isolate && (!s.Child || appHandles))
		}
		scs = append(scs, s)
	}
	f.Close()
	em := newEmitter(c.out)
	if needSig {
		// Safety net: a signal sent while the program's own handler is not
		// (or no longer) registered must not terminate the harness.
		sink := make(chan os.Signal, 16)
		signal.Notify(sink, syscall.SIGINT, syscall.SIGTERM)
	}
	if !noisy {
		// bubbletea reports recovered panics with fmt.Printf and
		// debug.PrintStack; keep them out of the way.
		if dn, err := os.OpenFile(os.DevNull, os.O_WRONLY, 0); err == nil {
			os.Stdout, os.Stderr = dn, dn
		}
	}
	outs := make([]pResult, len(scs))
	done := make([]bool, len(scs))
	var emu sync.Mutex
	next := 0
	// results are written in input order as soon as they are available, so a
	// crash of the process loses only the scenarios not yet finished
	finish := func(i int, r pResult) {
		emu.Lock()
		defer emu.Unlock()
		outs[i], done[i] = r, true
		for next < len(outs) && done[next] {
			em.emit(outs[next])
			outs[next] = pResult{}
			next++
		}
		em.w.Flush()
	}
	var wg sync.WaitGroup
	sem := make(chan struct{}, 8)
	for i, s := range scs {
		run := runProgramScenario
		if s.Isolate {
			run = runIsolated
		}
		if s.ParallelOK && s.Gomaxprocs == 0 {
			wg.Add(1)
			sem <- struct{}{}
			go func(i int, s *pScenario) {
				defer wg.Done()
				defer func() { <-sem }()
				finish(i, run(s))
			}(i, s)
			continue
		}
		wg.Wait()
		finish(i, run(s))
	}
	wg.Wait()
	em.close()
}
