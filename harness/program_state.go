package main

import (
	"bytes"
	"errors"
	"fmt"
	"io"
	"os"
	"runtime"
	"strconv"
	"strings"
	"sync"
	"sync/atomic"
	"syscall"
	"time"

	tea "github.com/charmbracelet/bubbletea"
)

// ---------------------------------------------------------------- helpers

func pGoid() int64 {
	var buf [64]byte
	n := runtime.Stack(buf[:], false)
	// "goroutine 123 [running]:"
	s := buf[:n]
	const pre = len("goroutine ")
	if len(s) <= pre {
		return -1
	}
	s = s[pre:]
	i := 0
	for i < len(s) && s[i] >= '0' && s[i] <= '9' {
		i++
	}
	id, err := strconv.ParseInt(string(s[:i]), 10, 64)
	if err != nil {
		return -1
	}
	return id
}

func pInt(i int) *int { return &i }

func pToInts(b []byte) []int {
	o := make([]int, len(b))
	for i, x := range b {
		o[i] = int(x)
	}
	return o
}

// ---------------------------------------------------------------- output

type pOutput struct {
	mu sync.Mutex
	b  []byte
	t0 time.Time
	// one entry per Write call that carries painted text (not only control sequences): microseconds since t0, length
	paints [][2]int64
	// fault injection: the first `Times` writes containing Match fail (EAGAIN) or, with DelayUs, are slow
	fault     *pOutFault
	faultLeft int
}

func (o *pOutput) Write(p []byte) (int, error) {
	o.mu.Lock()
	if o.fault != nil && o.faultLeft > 0 && bytes.Contains(p, []byte(o.fault.Match)) {
		o.faultLeft--
		if o.fault.Panic {
			o.mu.Unlock()
			panic("scenario panic in the output writer")
		}
		if o.fault.DelayUs > 0 {
			// a slow terminal: the bytes arrive, but the Write call takes this long
			o.mu.Unlock()
			time.Sleep(time.Duration(o.fault.DelayUs) * time.Microsecond)
			o.mu.Lock()
		} else {
			// a transient failure: nothing of this Write reaches the terminal
			o.mu.Unlock()
			return 0, syscall.EAGAIN
		}
	}
	o.b = append(o.b, p...)
	if len(o.paints) < 20000 && len(p) > 0 && !o.t0.IsZero() {
		o.paints = append(o.paints, [2]int64{time.Since(o.t0).Microseconds(), int64(len(p))})
	}
	o.mu.Unlock()
	return len(p), nil
}

func newPOutput(sc *pScenario) *pOutput {
	o := &pOutput{t0: time.Now()}
	if sc.OutFault != nil {
		o.fault = sc.OutFault
		o.faultLeft = sc.OutFault.Times
		if o.faultLeft == 0 {
			o.faultLeft = 1
		}
	}
	return o
}

func (o *pOutput) Writes() [][2]int64 {
	o.mu.Lock()
	c := append([][2]int64{}, o.paints...)
	o.mu.Unlock()
	return c
}

// SyncThrough makes sure everything written to a pseudo-terminal so far has reached this buffer: a marker is written
// to the slave side and the call waits (up to `limit`) until the goroutine draining the master has delivered it; the
// marker is then taken out again.  (Waiting for "no new bytes for 20 ms" was not enough on a loaded machine.)
func (o *pOutput) SyncThrough(w io.Writer, limit time.Duration) bool {
	marker := []byte("\x00\x01verif-sync\x01\x00")
	if _, err := w.Write(marker); err != nil {
		return false
	}
	deadline := time.Now().Add(limit)
	for {
		o.mu.Lock()
		if i := bytes.Index(o.b, marker); i >= 0 {
			o.b = append(o.b[:i:i], o.b[i+len(marker):]...)
			o.mu.Unlock()
			return true
		}
		o.mu.Unlock()
		if time.Now().After(deadline) {
			return false
		}
		time.Sleep(time.Millisecond)
	}
}

func (o *pOutput) Len() int {
	o.mu.Lock()
	n := len(o.b)
	o.mu.Unlock()
	return n
}

func (o *pOutput) Snapshot() []byte {
	o.mu.Lock()
	c := append([]byte{}, o.b...)
	o.mu.Unlock()
	return c
}

// ---------------------------------------------------------------- custom reader input

var errPInputFail = errors.New("scenario input failure")

// pReader is the "reader" input kind: not a file, so bubbletea falls back to
// the non-cancellable reader path.
type pReader struct {
	mu       sync.Mutex
	ch       chan struct{} // closed and replaced on every change
	q        []byte
	released bool
	final    error
}

func newPReader(initial []byte, final error) *pReader {
	return &pReader{ch: make(chan struct{}), q: append([]byte{}, initial...), final: final}
}

func (r *pReader) changedLocked() { close(r.ch); r.ch = make(chan struct{}) }

func (r *pReader) Read(p []byte) (int, error) {
	for {
		r.mu.Lock()
		if len(r.q) > 0 {
			n := copy(p, r.q)
			r.q = r.q[n:]
			r.mu.Unlock()
			return n, nil
		}
		if r.released {
			r.mu.Unlock()
			return 0, r.final
		}
		ch := r.ch
		r.mu.Unlock()
		<-ch
	}
}

func (r *pReader) add(b []byte) {
	r.mu.Lock()
	r.q = append(r.q, b...)
	r.changedLocked()
	r.mu.Unlock()
}

func (r *pReader) release() {
	r.mu.Lock()
	if !r.released {
		r.released = true
		r.changedLocked()
	}
	r.mu.Unlock()
}

// ---------------------------------------------------------------- state

type userMsg struct{ N int }

// harnessState is everything one scenario shares between the model, the
// commands, the senders and the controller.
type harnessState struct {
	sc *pScenario
	t0 time.Time

	// recording (its own mutex: held only to append one event)
	emu    sync.Mutex
	clock  int64
	events []pEvent

	out *pOutput

	// activity tracking for "wait idle" (atomics only)
	inflight int64
	lastAct  int64
	viewN    int64
	execN    int64

	// control state
	mu           sync.Mutex
	ch           chan struct{} // closed and replaced on every change of control state
	paused       map[string]int
	permits      map[string]int
	open         map[string]bool
	openAll      bool
	gates        map[string]chan struct{}
	started      bool
	runStarted   bool
	runStartedAt time.Time
	runDone      bool // Run returned or panicked
	sendersOn    bool
	sendDone     []bool
	api          []pAPI
	errs         []string

	forever chan struct{} // never closed

	scratch    []tea.Cmd
	dropped    map[string]int
	passed     map[string]int
	cmdCache   map[*pCmdSpec]tea.Cmd
	lastKey    atomic.Value // key of the message of the most recent Update
	afterFired int32

	filterDrop, filterPause, filterPanic map[string]bool
}

func newHarnessState(sc *pScenario) *harnessState {
	h := &harnessState{
		sc: sc, t0: time.Now(), out: newPOutput(sc), ch: make(chan struct{}),
		paused: map[string]int{}, permits: map[string]int{}, open: map[string]bool{},
		gates: map[string]chan struct{}{}, sendDone: make([]bool, len(sc.Senders)),
		forever:    make(chan struct{}),
		filterDrop: map[string]bool{}, filterPause: map[string]bool{}, filterPanic: map[string]bool{}, dropped: map[string]int{}, passed: map[string]int{}, cmdCache: map[*pCmdSpec]tea.Cmd{},
	}
	if f := sc.Opts.Filter; f != nil {
		for _, k := range f.Drop {
			h.filterDrop[k] = true
		}
		for _, k := range f.Pause {
			h.filterPause[k] = true
		}
		for _, k := range f.Panic {
			h.filterPanic[k] = true
		}
	}
	atomic.StoreInt64(&h.lastAct, time.Now().UnixNano())
	return h
}

func (h *harnessState) log(e pEvent) {
	e.G = pGoid()
	h.emu.Lock()
	h.clock++
	e.C = h.clock
	e.T = time.Since(h.t0).Microseconds()
	h.events = append(h.events, e)
	h.emu.Unlock()
	atomic.StoreInt64(&h.lastAct, time.Now().UnixNano())
}

func (h *harnessState) changedLocked() { close(h.ch); h.ch = make(chan struct{}) }

// update mutates the control state and wakes every waiter.
func (h *harnessState) update(f func()) {
	h.mu.Lock()
	f()
	h.changedLocked()
	h.mu.Unlock()
}

func (h *harnessState) addErr(format string, a ...interface{}) {
	h.update(func() { h.errs = append(h.errs, fmt.Sprintf(format, a...)) })
}

// waitFor blocks until pred (evaluated under h.mu) holds or the deadline passes.
func (h *harnessState) waitFor(deadline time.Time, pred func() bool) bool {
	for {
		h.mu.Lock()
		ok := pred()
		ch := h.ch
		h.mu.Unlock()
		if ok {
			return true
		}
		d := time.Until(deadline)
		if d <= 0 {
			return false
		}
		t := time.NewTimer(d)
		select {
		case <-ch:
			t.Stop()
		case <-t.C:
		}
	}
}

// pause registers the caller as paused at label and blocks until a release.
// Releases are permits: one release lets one paused callback through (and a
// release given in advance lets the next one pass immediately).
func (h *harnessState) pause(label string) {
	h.mu.Lock()
	h.paused[label]++
	h.changedLocked()
	for !(h.openAll || h.open[label] || h.permits[label] > 0) {
		ch := h.ch
		h.mu.Unlock()
		<-ch
		h.mu.Lock()
	}
	if !h.openAll && !h.open[label] {
		h.permits[label]--
	}
	h.paused[label]--
	h.changedLocked()
	h.mu.Unlock()
}

func (h *harnessState) gate(name string) chan struct{} {
	h.mu.Lock()
	g, ok := h.gates[name]
	if !ok {
		g = make(chan struct{})
		h.gates[name] = g
	}
	h.mu.Unlock()
	return g
}

func (h *harnessState) openGate(name string) {
	g := h.gate(name)
	h.mu.Lock()
	select {
	case <-g:
	default:
		close(g)
	}
	h.mu.Unlock()
}

// releaseEverything opens every pause label and gate (end of scenario).
func (h *harnessState) releaseEverything() {
	h.mu.Lock()
	h.openAll = true
	for _, g := range h.gates {
		select {
		case <-g:
		default:
			close(g)
		}
	}
	h.changedLocked()
	h.mu.Unlock()
}

// ---------------------------------------------------------------- message keys

var pKindName = map[string]string{
	"quit": "quit", "interrupt": "interrupt", "suspend": "suspend", "resume": "resume",
	"clearScreen": "clear", "enterAlt": "enteralt", "exitAlt": "exitalt",
	"mouseCell": "mousecell", "mouseAll": "mouseall", "mouseOff": "mouseoff",
	"showCursor": "showcursor", "hideCursor": "hidecursor",
	"pasteOn": "pasteon", "pasteOff": "pasteoff", "focusOn": "focuson", "focusOff": "focusoff",
	"exec": "exec", "batch": "batch", "sequence": "sequence", "title": "title",
	"windowSizeQuery": "windowsize", "WindowSize": "windowsizemsg", "printLine": "print",
	"repaint": "repaint", "focus": "focus", "blur": "blur",
}

// message values of unusual shapes (all of them perfectly good messages): typed nils and a message that is an error
type (
	sliceMsg []int
	mapMsg   map[string]int
	ptrMsg   struct{ n int }
	funcMsg  func()
	errMsg   struct{ N int }
)

func (e errMsg) Error() string { return "errMsg " + strconv.Itoa(e.N) }

func pKeyOf(msg tea.Msg) string {
	switch m := msg.(type) {
	case nil:
		return "nil"
	case sliceMsg:
		return "tn:slice"
	case mapMsg:
		return "tn:map"
	case *ptrMsg:
		return "tn:ptr"
	case funcMsg:
		return "tn:func"
	case errMsg:
		return "err:" + strconv.Itoa(m.N)
	case userMsg:
		return "u:" + strconv.Itoa(m.N)
	case tea.KeyMsg:
		return "key:" + m.String()
	case tea.MouseMsg:
		return "mouse"
	case tea.WindowSizeMsg:
		return fmt.Sprintf("ws:%dx%d", m.Width, m.Height)
	}
	kind := tea.VerifMsgKind(msg)
	if kind == "user" {
		return fmt.Sprintf("other:%T", msg)
	}
	if n, ok := pKindName[kind]; ok {
		return "b:" + n
	}
	return "b:" + kind
}

// pKeyAliases: lookup keys tried in order for a logged key.
func pKeyAliases(key string) []string {
	switch {
	case len(key) > 4 && key[:4] == "key:":
		return []string{key, "key"}
	case len(key) > 3 && key[:3] == "ws:":
		return []string{key, "b:windowsizemsg", "ws"}
	case len(key) > 6 && key[:6] == "other:":
		return []string{key, "other"}
	}
	return []string{key}
}

// ---------------------------------------------------------------- fake exec

type pFakeExec struct {
	h       *harnessState
	idx     int
	ok      bool
	pause   bool
	closeIn bool
	fast    bool
	read    int
	mu      sync.Mutex
	stdin   io.Reader
	stdout  io.Writer
	stderr  io.Writer
}

func (f *pFakeExec) SetStdin(r io.Reader)  { f.mu.Lock(); f.stdin = r; f.mu.Unlock() }
func (f *pFakeExec) SetStdout(w io.Writer) { f.mu.Lock(); f.stdout = w; f.mu.Unlock() }
func (f *pFakeExec) SetStderr(w io.Writer) { f.mu.Lock(); f.stderr = w; f.mu.Unlock() }

func (f *pFakeExec) Run() error {
	h := f.h
	h.log(pEvent{Ev: "ExecRunBegin", ID: pInt(f.idx), Outlen: pInt(h.out.Len())})
	if f.pause {
		h.pause("exec:" + strconv.Itoa(f.idx))
	}
	got := []int{}
	f.mu.Lock()
	in := f.stdin
	f.mu.Unlock()
	if f.read > 0 && in != nil && !pIsNilReader(in) {
		type rr struct {
			b []byte
		}
		c := make(chan rr, 1)
		go func() {
			buf := make([]byte, f.read)
			n, _ := in.Read(buf)
			c <- rr{buf[:n]}
		}()
		select {
		case r := <-c:
			got = pToInts(r.b)
		case <-time.After(100 * time.Millisecond):
		}
	}
	if f.closeIn {
		// the external program closes the descriptor it inherited: taking the terminal back will fail
		if c, ok := in.(io.Closer); ok && !pIsNilReader(in) {
			_ = c.Close()
		}
	}
	if !f.fast {
		time.Sleep(20 * time.Millisecond)
	}
	h.log(pEvent{Ev: "ExecRunEnd", ID: pInt(f.idx), Outlen: pInt(h.out.Len()), Read: &got})
	if f.ok {
		return nil
	}
	return errors.New("scenario exec failure")
}

// pIsNilReader: a typed nil *os.File stored in the interface.
func pIsNilReader(r io.Reader) bool {
	if f, ok := r.(*os.File); ok && f == nil {
		return true
	}
	return false
}

// ---------------------------------------------------------------- builders

func (h *harnessState) buildMsg(ms *pMsgSpec) tea.Msg {
	if ms == nil {
		return nil
	}
	if ms.U != nil {
		return userMsg{*ms.U}
	}
	switch ms.B {
	case "quit":
		return tea.Quit()
	case "interrupt":
		return tea.Interrupt()
	case "suspend":
		return tea.Suspend()
	case "resume":
		return tea.ResumeMsg{}
	case "enteralt":
		return tea.EnterAltScreen()
	case "exitalt":
		return tea.ExitAltScreen()
	case "mousecell":
		return tea.EnableMouseCellMotion()
	case "mouseall":
		return tea.EnableMouseAllMotion()
	case "mouseoff":
		return tea.DisableMouse()
	case "showcursor":
		return tea.ShowCursor()
	case "hidecursor":
		return tea.HideCursor()
	case "pasteon":
		return tea.EnableBracketedPaste()
	case "pasteoff":
		return tea.DisableBracketedPaste()
	case "focuson":
		return tea.EnableReportFocus()
	case "focusoff":
		return tea.DisableReportFocus()
	case "clear":
		return tea.ClearScreen()
	case "windowsize":
		return tea.WindowSize()()
	case "print":
		// through the public constructor (tea.Println), as a program would
		return tea.Println(ms.S)()
	case "title":
		return tea.SetWindowTitle(ms.S)()
	case "repaint":
		return tea.VerifRepaintMsg()
	case "focus":
		return tea.FocusMsg{}
	case "blur":
		return tea.BlurMsg{}
	case "nil":
		return nil
	case "batch":
		b := make(tea.BatchMsg, 0, len(ms.Cmds))
		for _, c := range ms.Cmds {
			b = append(b, h.buildCmd(c))
		}
		return b
	case "sequence":
		cs := make([]tea.Cmd, 0, len(ms.Cmds))
		for _, c := range ms.Cmds {
			cs = append(cs, h.buildCmd(c))
		}
		return tea.Sequence(cs...)()
	case "exec":
		idx := int(atomic.AddInt64(&h.execN, 1) - 1)
		fe := &pFakeExec{h: h, idx: idx, ok: ms.OK == nil || *ms.OK, read: ms.Read, pause: ms.Pause, closeIn: ms.CloseIn, fast: ms.Fast}
		var cb tea.ExecCallback
		if ms.CB {
			cb = func(err error) tea.Msg {
				s := "nil"
				if err != nil {
					s = "err"
				}
				h.log(pEvent{Ev: "ExecCallback", ID: pInt(idx), Err: s})
				return userMsg{9000 + idx}
			}
		}
		return tea.Exec(fe, cb)()
	case "windowsizemsg":
		return tea.WindowSizeMsg{Width: ms.W, Height: ms.H}
	case "tn-slice":
		return sliceMsg(nil)
	case "tn-map":
		return mapMsg(nil)
	case "tn-ptr":
		return (*ptrMsg)(nil)
	case "tn-func":
		return funcMsg(nil)
	case "errmsg":
		return errMsg{ms.W}
	}
	h.addErr("unknown message spec b=%q", ms.B)
	return nil
}

func (h *harnessState) buildCmd(cs *pCmdSpec) tea.Cmd {
	if cs == nil {
		return nil
	}
	if cs.Cache {
		h.mu.Lock()
		c, ok := h.cmdCache[cs]
		h.mu.Unlock()
		if ok {
			return c
		}
		cp := *cs
		cp.Cache = false
		c = h.buildCmd(&cp)
		h.mu.Lock()
		h.cmdCache[cs] = c
		h.mu.Unlock()
		return c
	}
	switch {
	case cs.Batch != nil && cs.Reuse:
		// a model that keeps one scratch []Cmd and refills it on every Update (called on the event loop only)
		h.scratch = h.scratch[:0]
		for _, c := range *cs.Batch {
			h.scratch = append(h.scratch, h.buildCmd(c))
		}
		return tea.Batch(h.scratch...)
	case cs.Batch != nil:
		l := make([]tea.Cmd, 0, len(*cs.Batch))
		for _, c := range *cs.Batch {
			l = append(l, h.buildCmd(c))
		}
		return tea.Batch(l...)
	case cs.Seq != nil:
		l := make([]tea.Cmd, 0, len(*cs.Seq))
		for _, c := range *cs.Seq {
			l = append(l, h.buildCmd(c))
		}
		return tea.Sequence(l...)
	case cs.TickUs != nil:
		ret := cs.Ret
		return tea.Tick(time.Duration(*cs.TickUs)*time.Microsecond, func(time.Time) tea.Msg { return h.buildMsg(ret) })
	case cs.Msg != nil:
		ms := cs.Msg
		return func() tea.Msg { return h.buildMsg(ms) }
	}
	spec := *cs
	return func() tea.Msg {
		h.log(pEvent{Ev: "CmdStart", ID: pInt(spec.ID)})
		atomic.AddInt64(&h.inflight, 1)
		counted := true
		defer func() {
			if counted {
				atomic.AddInt64(&h.inflight, -1)
			}
		}()
		if spec.SleepUs > 0 {
			time.Sleep(time.Duration(spec.SleepUs) * time.Microsecond)
		}
		switch {
		case spec.Block == "forever":
			atomic.AddInt64(&h.inflight, -1)
			counted = false
			<-h.forever
		case len(spec.Block) > 5 && spec.Block[:5] == "gate:":
			atomic.AddInt64(&h.inflight, -1)
			<-h.gate(spec.Block[5:])
			atomic.AddInt64(&h.inflight, 1)
		}
		if spec.Panic {
			panic(fmt.Sprintf("scenario panic cmd:%d", spec.ID))
		}
		msg := h.buildMsg(spec.Ret)
		h.log(pEvent{Ev: "CmdEnd", ID: pInt(spec.ID)})
		return msg
	}
}

// ---------------------------------------------------------------- model

type pModel struct {
	ver int
	h   *harnessState
}

func (h *harnessState) runCtl(c *pCtl, label string) {
	if c == nil {
		return
	}
	if c.Pause {
		h.pause(label)
	}
	if c.SleepUs > 0 {
		time.Sleep(time.Duration(c.SleepUs) * time.Microsecond)
	}
	for i := 0; i < c.Yield; i++ {
		runtime.Gosched()
	}
	if c.Panic {
		panic("scenario panic " + label)
	}
}

func (m pModel) Init() tea.Cmd {
	h := m.h
	atomic.AddInt64(&h.inflight, 1)
	defer atomic.AddInt64(&h.inflight, -1)
	h.log(pEvent{Ev: "InitBegin", Ver: pInt(m.ver)})
	h.update(func() { h.started = true })
	h.runCtl(h.sc.InitCtl, "init")
	cmd := h.buildCmd(h.sc.Init)
	h.log(pEvent{Ev: "InitEnd", Ver: pInt(m.ver)})
	return cmd
}

func (m pModel) Update(msg tea.Msg) (tea.Model, tea.Cmd) {
	h := m.h
	atomic.AddInt64(&h.inflight, 1)
	defer atomic.AddInt64(&h.inflight, -1)
	key := pKeyOf(msg)
	h.log(pEvent{Ev: "UpdateBegin", Key: key, Ver: pInt(m.ver), Outlen: pInt(h.out.Len())})
	ctl := h.sc.UpdateDef
	for _, k := range pKeyAliases(key) {
		if c, ok := h.sc.Update[k]; ok {
			ctl = c
			break
		}
	}
	h.lastKey.Store(key)
	h.runCtl(ctl, "update:"+key)
	var cmd tea.Cmd
	if ctl != nil {
		cmd = h.buildCmd(ctl.Cmd)
	}
	h.log(pEvent{Ev: "UpdateEnd", Key: key, Ver: pInt(m.ver), Out: pInt(m.ver + 1)})
	return pModel{ver: m.ver + 1, h: h}, cmd
}

func (m pModel) View() string {
	h := m.h
	atomic.AddInt64(&h.inflight, 1)
	defer atomic.AddInt64(&h.inflight, -1)
	k := int(atomic.AddInt64(&h.viewN, 1))
	h.log(pEvent{Ev: "ViewBegin", Ver: pInt(m.ver), K: pInt(k)})
	v := h.sc.View
	label := "view:" + strconv.Itoa(k)
	if v.PauseAt != nil && *v.PauseAt == k {
		h.pause(label)
	}
	if v.PanicAt != nil && *v.PanicAt == k {
		panic("scenario panic " + label)
	}
	if lk, _ := h.lastKey.Load().(string); lk != "" && (lk == v.PauseAfter || lk == v.PanicAfter) && atomic.CompareAndSwapInt32(&h.afterFired, 0, 1) {
		if lk == v.PauseAfter {
			h.pause("view:after:" + lk)
		}
		if lk == v.PanicAfter {
			panic("scenario panic view:after:" + lk)
		}
	}
	s := fmt.Sprintf("view %d\n", m.ver)
	if v.Text != nil {
		s = *v.Text
	}
	if v.Pad > 0 {
		var sb strings.Builder
		for i := 0; i <= v.Pad; i++ {
			if i == v.At {
				fmt.Fprintf(&sb, "view %d", m.ver)
			} else {
				fmt.Fprintf(&sb, "row %02d ..........................", i)
			}
			if i < v.Pad {
				sb.WriteByte('\n')
			}
		}
		s = sb.String()
	}
	h.log(pEvent{Ev: "ViewEnd", Ver: pInt(m.ver), K: pInt(k)})
	return s
}

func (h *harnessState) filter(m tea.Model, msg tea.Msg) tea.Msg {
	atomic.AddInt64(&h.inflight, 1)
	defer atomic.AddInt64(&h.inflight, -1)
	ver := -1
	if pm, ok := m.(pModel); ok {
		ver = pm.ver
	}
	key := pKeyOf(msg)
	h.log(pEvent{Ev: "FilterBegin", Key: key, Ver: pInt(ver)})
	f := h.sc.Opts.Filter
	label := "filter:" + key
	has := func(set map[string]bool) bool {
		for _, k := range pKeyAliases(key) {
			if set[k] {
				return true
			}
		}
		return false
	}
	if has(h.filterPause) {
		h.pause(label)
	}
	if has(h.filterPanic) {
		panic("scenario panic " + label)
	}
	out := msg
	dropFirst := false
	if f.DropFirst != nil {
		h.mu.Lock()
		for _, k := range pKeyAliases(key) {
			if n, ok := f.DropFirst[k]; ok && h.dropped[k] < n {
				h.dropped[k]++
				dropFirst = true
				break
			}
		}
		h.mu.Unlock()
	}
	if f.DropAfter != nil {
		h.mu.Lock()
		for _, k := range pKeyAliases(key) {
			if n, ok := f.DropAfter[k]; ok {
				h.passed[k]++
				if h.passed[k] > n {
					dropFirst = true
				}
				break
			}
		}
		h.mu.Unlock()
	}
	if has(h.filterDrop) || dropFirst {
		out = nil
	} else {
		for _, k := range pKeyAliases(key) {
			if r, ok := f.Replace[k]; ok {
				out = h.buildMsg(r)
				break
			}
		}
	}
	h.log(pEvent{Ev: "FilterEnd", Key: key, Ver: pInt(ver), Verdict: pKeyOf(out)})
	return out
}
