package main

// JSON shapes of the "program" family: scenarios in, results out.

type pMsgSpec struct {
	U       *int        `json:"u,omitempty"`
	B       string      `json:"b,omitempty"`
	S       string      `json:"s,omitempty"`
	Cmds    []*pCmdSpec `json:"cmds,omitempty"`
	OK      *bool       `json:"ok,omitempty"` // exec: default true
	CB      bool        `json:"cb,omitempty"`
	Pause   bool        `json:"pause,omitempty"` // exec: block inside the command until released (label exec:<idx>)
	Read    int         `json:"read,omitempty"`
	Fast    bool        `json:"fast,omitempty"`     // exec: the command returns at once (no 20 ms of "work")
	CloseIn bool        `json:"close_in,omitempty"` // exec: the command closes the program's input (the read end it was given)
	W       int         `json:"w,omitempty"`
	H       int         `json:"h,omitempty"`
}

type pCmdSpec struct {
	ID      int          `json:"id"`
	Ret     *pMsgSpec    `json:"ret,omitempty"`
	Block   string       `json:"block,omitempty"` // no | forever | gate:<name>
	Panic   bool         `json:"panic,omitempty"`
	SleepUs int          `json:"sleep_us,omitempty"`
	Batch   *[]*pCmdSpec `json:"batch,omitempty"`
	Seq     *[]*pCmdSpec `json:"seq,omitempty"`
	TickUs  *int         `json:"tick_us,omitempty"`
	Cache   bool         `json:"cache,omitempty"` // build the command once and hand out the same value every time (a command stored in the model)
	Reuse   bool         `json:"reuse,omitempty"` // batch: build the argument list in a scratch buffer shared by all such batches
	Msg     *pMsgSpec    `json:"msg,omitempty"`
}

type pFilterSpec struct {
	Drop    []string             `json:"drop,omitempty"`
	Replace map[string]*pMsgSpec `json:"replace,omitempty"`
	Pause   []string             `json:"pause,omitempty"`
	Panic   []string             `json:"panic,omitempty"`
	// drop only the first n messages of a key (a "are you sure?" filter that gives in later)
	DropFirst map[string]int `json:"drop_first,omitempty"`
	// let the first n messages of a key through and drop every later one
	DropAfter map[string]int `json:"drop_after,omitempty"`
}

// pOutFault: the first Times (default 1) writes to the output that contain Match fail with EAGAIN, or - with DelayUs -
// take that long before the bytes arrive.
type pOutFault struct {
	Match   string `json:"match"`
	Times   int    `json:"times,omitempty"`
	DelayUs int    `json:"delay_us,omitempty"`
	Panic   bool   `json:"panic,omitempty"` // the Write call panics instead (a broken io.Writer)
}

type pOpts struct {
	Alt          bool         `json:"alt,omitempty"`
	Mouse        string       `json:"mouse,omitempty"`
	NoPaste      bool         `json:"nopaste,omitempty"`
	Focus        bool         `json:"focus,omitempty"`
	FPS          int          `json:"fps,omitempty"`
	NoSigHandler *bool        `json:"nosighandler,omitempty"` // default true
	NoSignals    bool         `json:"nosignals,omitempty"`
	NoRenderer   bool         `json:"norenderer,omitempty"`
	Compressor   bool         `json:"compressor,omitempty"` // WithANSICompressor
	NoCatch      bool         `json:"nocatch,omitempty"`    // WithoutCatchPanics
	Filter       *pFilterSpec `json:"filter,omitempty"`
}

type pInput struct {
	Kind  string `json:"kind,omitempty"` // none | pipe | file | reader
	Bytes []int  `json:"bytes,omitempty"`
	End   string `json:"end,omitempty"` // hold | eof | fail
	W     int    `json:"w,omitempty"`   // pty: initial window size
	H     int    `json:"h,omitempty"`
}

// pCtl is what a callback (Init / Update) does besides logging.
type pCtl struct {
	Cmd     *pCmdSpec `json:"cmd,omitempty"`
	Pause   bool      `json:"pause,omitempty"`
	Panic   bool      `json:"panic,omitempty"`
	SleepUs int       `json:"sleep_us,omitempty"`
	Yield   int       `json:"yield,omitempty"`
}

type pView struct {
	PanicAt *int    `json:"panic_at,omitempty"`
	PauseAt *int    `json:"pause_at,omitempty"`
	Text    *string `json:"text,omitempty"`
	// pause (and optionally panic in) the first View that follows the Update of this message key; label view:after:<key>
	PauseAfter string `json:"pause_after,omitempty"`
	PanicAfter string `json:"panic_after,omitempty"`
	// the view is "view <version>" on line At (0-based) of Pad+1 lines, the others constant ("row 00 ........")
	Pad int `json:"pad,omitempty"`
	At  int `json:"at,omitempty"`
}

type pStep struct {
	Wait   string    `json:"wait,omitempty"`
	Do     string    `json:"do,omitempty"`
	Label  string    `json:"label,omitempty"`
	All    bool      `json:"all,omitempty"`    // release: open the label for good
	Silent bool      `json:"silent,omitempty"` // winsize: change the size without raising SIGWINCH
	Name   string    `json:"name,omitempty"`
	Msg    *pMsgSpec `json:"msg,omitempty"`
	Bytes  []int     `json:"bytes,omitempty"`
	Us     int       `json:"us,omitempty"`
	Kind   string    `json:"kind,omitempty"`
	N      int       `json:"n,omitempty"`
	Sig    string    `json:"sig,omitempty"`
	W      int       `json:"w,omitempty"`
	H      int       `json:"h,omitempty"`
}

type pScenario struct {
	ID         int              `json:"id"`
	WatchdogMs int              `json:"watchdog_ms,omitempty"`
	Gomaxprocs int              `json:"gomaxprocs,omitempty"`
	ParallelOK bool             `json:"parallel_ok,omitempty"`
	Isolate    bool             `json:"isolate,omitempty"` // run in a child harness process
	Ctty       bool             `json:"ctty,omitempty"`    // with isolate: the child gets a pseudo-terminal as its controlling terminal (/dev/tty exists there)
	Child      bool             `json:"child,omitempty"`   // set by runIsolated: this process runs exactly this one scenario
	OutFault   *pOutFault       `json:"out_fault,omitempty"`
	Writes     bool             `json:"writes,omitempty"` // report the time and size of every Write call on the output
	Opts       pOpts            `json:"opts"`
	Input      pInput           `json:"input"`
	Ctx        bool             `json:"ctx,omitempty"`
	Init       *pCmdSpec        `json:"init,omitempty"`
	InitCtl    *pCtl            `json:"init_ctl,omitempty"` // pause/panic/sleep_us/yield of Init (cmd ignored)
	Update     map[string]*pCtl `json:"update,omitempty"`
	UpdateDef  *pCtl            `json:"update_default,omitempty"`
	View       pView            `json:"view"`
	Senders    [][]*pMsgSpec    `json:"senders,omitempty"`
	Script     []pStep          `json:"script,omitempty"`
}

type pEvent struct {
	C       int64  `json:"c"`
	G       int64  `json:"g"`
	T       int64  `json:"t"` // microseconds since the scenario began (informative)
	Ev      string `json:"ev"`
	Key     string `json:"key,omitempty"`
	Ver     *int   `json:"ver,omitempty"`
	Out     *int   `json:"out,omitempty"`
	ID      *int   `json:"id,omitempty"`
	Sender  *int   `json:"sender,omitempty"`
	K       *int   `json:"k,omitempty"`
	Verdict string `json:"verdict,omitempty"`
	Outlen  *int   `json:"outlen,omitempty"`
	Err     string `json:"err,omitempty"`
	Read    *[]int `json:"read,omitempty"`
}

type pAPI struct {
	Kind                string `json:"kind"`
	I                   int    `json:"i"`
	Step                int    `json:"step"`
	StartedBeforeReturn bool   `json:"started_before_return"`
	Returned            bool   `json:"returned"`
}

type pResult struct {
	ID              int      `json:"id"`
	Events          []pEvent `json:"events"`
	RunStarted      bool     `json:"run_started"`
	RunReturned     bool     `json:"run_returned"`
	RunErr          string   `json:"run_err"`
	RunErrText      string   `json:"run_err_text"`
	FinalVer        int      `json:"final_ver"`
	RunPanicked     string   `json:"run_panicked,omitempty"`
	API             []pAPI   `json:"api"`
	SendersDone     []bool   `json:"senders_done"`
	ScriptTimeout   *int     `json:"script_timeout"`
	Output          []int    `json:"output"`
	OutputAtReturn  int      `json:"output_at_return"`
	PausedAtEnd     []string `json:"paused_at_end,omitempty"`
	Errors          []string `json:"errors,omitempty"`
	Crashed         bool     `json:"crashed,omitempty"`
	CrashText       string   `json:"crash_text,omitempty"`
	WallMs          int64    `json:"wall_ms"`
	Stuck           string   `json:"stuck,omitempty"`
	TermiosRestored *bool    `json:"termios_restored,omitempty"`
	// fd-canary: how often a descriptor the harness had just opened was closed by somebody else
	FdStolen   *int       `json:"fd_stolen,omitempty"`
	FdCanaries int        `json:"fd_canaries,omitempty"`
	Writes     [][2]int64 `json:"writes,omitempty"` // (microseconds since the scenario began, bytes) per Write call on the output, when asked for
}
