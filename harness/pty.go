package main

// A pseudo-terminal pair for scenarios that need a real terminal device:
// raw mode (termios), window size, SIGWINCH.  Linux only.

import (
	"fmt"
	"os"

	"golang.org/x/sys/unix"
)

func openPty() (master, slave *os.File, err error) {
	m, err := os.OpenFile("/dev/ptmx", os.O_RDWR|unix.O_NOCTTY, 0)
	if err != nil {
		return nil, nil, err
	}
	if err := unix.IoctlSetPointerInt(int(m.Fd()), unix.TIOCSPTLCK, 0); err != nil {
		m.Close()
		return nil, nil, fmt.Errorf("unlockpt: %w", err)
	}
	n, err := unix.IoctlGetInt(int(m.Fd()), unix.TIOCGPTN)
	if err != nil {
		m.Close()
		return nil, nil, fmt.Errorf("ptsname: %w", err)
	}
	s, err := os.OpenFile(fmt.Sprintf("/dev/pts/%d", n), os.O_RDWR|unix.O_NOCTTY, 0)
	if err != nil {
		m.Close()
		return nil, nil, err
	}
	return m, s, nil
}

func setWinsize(f *os.File, w, h int) error {
	return unix.IoctlSetWinsize(int(f.Fd()), unix.TIOCSWINSZ, &unix.Winsize{Row: uint16(h), Col: uint16(w)})
}

func getTermios(f *os.File) (*unix.Termios, error) {
	return unix.IoctlGetTermios(int(f.Fd()), unix.TCGETS)
}

func termiosEqual(a, b *unix.Termios) bool {
	return a != nil && b != nil && *a == *b
}
