package main

import (
	"bufio"
	"bytes"
	"encoding/json"
	"fmt"
	"os"
	"sync"

	tea "github.com/charmbracelet/bubbletea"
)

func init() { cmds["renderer"] = rendererMain }

type rOp struct {
	Op string `json:"op"`
	S  []int  `json:"s,omitempty"`
	W  int    `json:"w,omitempty"`
	H  int    `json:"h,omitempty"`
	M  int    `json:"m,omitempty"`
	On bool   `json:"on,omitempty"`
}

type rIn struct {
	ID  int   `json:"id"`
	Ops []rOp `json:"ops"`
}

type rOut struct {
	ID    int     `json:"id"`
	Outs  [][]int `json:"outs"`
	Panic string  `json:"panic,omitempty"`
}

func runRenderer(in rIn) (out rOut) {
	out.ID = in.ID
	defer func() {
		if r := recover(); r != nil {
			out.Panic = fmt.Sprint(r)
		}
	}()
	var buf bytes.Buffer
	r := tea.VerifNewRenderer(&buf, 60)
	for _, op := range in.Ops {
		switch op.Op {
		case "write":
			r.Write(string(toBytes(op.S)))
		case "flush":
			r.Flush()
		case "resize":
			r.Resize(op.W, op.H)
		case "enteralt":
			r.EnterAltScreen()
		case "exitalt":
			r.ExitAltScreen()
		case "clear":
			r.ClearScreen()
		case "repaint":
			r.Repaint()
		case "print":
			r.PrintLine(string(toBytes(op.S)))
		case "show":
			r.ShowCursor()
		case "hide":
			r.HideCursor()
		case "mouse":
			switch {
			case op.M == 1002 && op.On:
				r.EnableMouseCell()
			case op.M == 1002:
				r.DisableMouseCell()
			case op.M == 1003 && op.On:
				r.EnableMouseAll()
			case op.M == 1003:
				r.DisableMouseAll()
			case op.M == 1006 && op.On:
				r.EnableMouseSGR()
			default:
				r.DisableMouseSGR()
			}
		case "paste":
			if op.On {
				r.EnablePaste()
			} else {
				r.DisablePaste()
			}
		case "focus":
			if op.On {
				r.EnableFocus()
			} else {
				r.DisableFocus()
			}
		case "stop":
			r.Stop()
		case "kill":
			r.Kill()
		default:
			panic("unknown op " + op.Op)
		}
		b := buf.Bytes()
		o := make([]int, len(b))
		for i, x := range b {
			o[i] = int(x)
		}
		out.Outs = append(out.Outs, o)
		buf.Reset()
	}
	return out
}

func rendererMain(args []string) {
	c := parseCommon("renderer", args, nil)
	f, err := os.Open(c.fs.Arg(0))
	if err != nil {
		fmt.Fprintln(os.Stderr, err)
		os.Exit(2)
	}
	defer f.Close()
	var ins []rIn
	sc := bufio.NewScanner(f)
	sc.Buffer(make([]byte, 1<<20), 1<<28)
	for sc.Scan() {
		if len(sc.Bytes()) == 0 {
			continue
		}
		var in rIn
		if err := json.Unmarshal(sc.Bytes(), &in); err != nil {
			fmt.Fprintln(os.Stderr, "bad input line:", err)
			os.Exit(2)
		}
		ins = append(ins, in)
	}
	outs := make([]rOut, len(ins))
	var wg sync.WaitGroup
	sem := make(chan struct{}, 16)
	for i := range ins {
		wg.Add(1)
		sem <- struct{}{}
		go func(i int) {
			defer wg.Done()
			defer func() { <-sem }()
			outs[i] = runRenderer(ins[i])
		}(i)
	}
	wg.Wait()
	em := newEmitter(c.out)
	for _, o := range outs {
		em.emit(o)
	}
	em.close()
}
