package main

import (
	"io"
	"math/big"
	"sync"
	"sync/atomic"
	"time"

	tea "github.com/charmbracelet/bubbletea"
)

func init() { cmds["timer"] = timerMain }

// absolute nanoseconds since the zero time (year 1), as time.Truncate sees it
func absNS(t time.Time) string {
	const unixToInternal = 62135596800
	s := big.NewInt(t.Unix())
	s.Add(s, big.NewInt(unixToInternal))
	s.Mul(s, big.NewInt(1000000000))
	s.Add(s, big.NewInt(int64(t.Nanosecond())))
	return s.String()
}

type timerRec struct {
	Kind   string `json:"kind"` // every | tick
	D      int64  `json:"d"`
	Lo     string `json:"lo"`      // abs ns just before the constructor
	Hi     string `json:"hi"`      // abs ns just after
	ElTs   int64  `json:"el_ts"`   // callback time - lo (monotonic)
	ElCtl  int64  `json:"el_ctl"`  // control timer (armed after the constructor for the model delay) - lo
	ElRun  int64  `json:"el_run"`  // instant the command was started - lo
	ElRet  int64  `json:"el_ret"`  // instant the command returned - lo
	Calls  int32  `json:"calls"`   // callback invocations
	MsgOK  bool   `json:"msg_ok"`  // result of the command is the callback's result
	Phase  int64  `json:"phase"`   // lo mod d as measured
	PreRun int64  `json:"pre_run"` // requested delay between creation and run
}

type tickToken struct{ id int }

type timerWarmup struct{}

func (timerWarmup) Init() tea.Cmd                         { return tea.Quit }
func (m timerWarmup) Update(tea.Msg) (tea.Model, tea.Cmd) { return m, nil }
func (timerWarmup) View() string                          { return "" }

func modelEveryDelay(t time.Time, d time.Duration) time.Duration {
	// next whole multiple strictly after t (the Spec's next_multiple), by wall clock
	return t.Truncate(d).Add(d).Sub(t)
}

func timerMain(args []string) {
	c := parseCommon("timer", args, nil)
	em := newEmitter(c.out)
	defer em.close()
	r := &rng{s: c.seed}
	// the local time zone is not UTC and its offset is not a multiple of most of the periods used below (period
	// boundaries are multiples of the period since the zero time, whatever the zone)
	time.Local = time.FixedZone("verif+0537", 5*3600+37*60+11)
	// a Program has run and finished in this process before any of the timer commands below is created (they belong to
	// no program: what another program did must not matter to them)
	{
		p := tea.NewProgram(timerWarmup{}, tea.WithInput(nil), tea.WithOutput(io.Discard), tea.WithoutSignalHandler())
		_, _ = p.Run()
	}
	// a timer command value that was run twice (the second run waits for ever: a timer fires once); commands created
	// afterwards are not affected
	for _, kind := range []string{"tick", "every"} {
		fn := func(t time.Time) tea.Msg { return nil }
		var stale tea.Cmd
		if kind == "tick" {
			stale = tea.Tick(3*time.Millisecond, fn)
		} else {
			stale = tea.Every(3*time.Millisecond, fn)
		}
		stale()
		go stale()
	}
	time.Sleep(5 * time.Millisecond)
	durs := []time.Duration{time.Millisecond, 7 * time.Millisecond, 50 * time.Millisecond, 200 * time.Millisecond}
	phases := 8
	if c.tier == "thorough" {
		durs = append(durs, 333*time.Millisecond, time.Second)
		phases = 16
	}
	var mu sync.Mutex
	var wg sync.WaitGroup
	id := 0
	type tcase struct {
		kind              string
		d, target, preRun time.Duration
	}
	var tcases []tcase
	for _, d := range durs {
		for ph := 0; ph < phases; ph++ {
			for _, kind := range []string{"every", "tick"} {
				// target phase within the period and delay before running the command
				target := time.Duration(int64(d)*int64(ph)/int64(phases)).Round(0) + time.Duration(r.intn(int(d)/phases+1))
				preRun := time.Duration(r.intn(int(d)*3/2 + 1))
				if r.chance(1, 4) {
					preRun = 0
				}
				tcases = append(tcases, tcase{kind, d, target, preRun})
			}
		}
	}
	// durations that are not a whole number of milliseconds (a timer armed with a rounded duration fires early)
	for _, d := range []time.Duration{2500 * time.Microsecond, 16666666, 5999999, 999 * time.Microsecond, 33333333} {
		for k := 0; k < 3; k++ {
			tcases = append(tcases, tcase{"tick", d, time.Duration(r.intn(int(d))), 0}, tcase{"every", d, time.Duration(r.intn(int(d))), 0})
		}
	}
	// Every created shortly before a boundary (the last 1/40 and 1/100 of the period): the boundary it aims at is the very next one
	for _, d := range []time.Duration{100 * time.Millisecond, 200 * time.Millisecond, 400 * time.Millisecond} {
		for _, frac := range []int64{40, 100} {
			for k := 0; k < 2; k++ {
				tcases = append(tcases, tcase{"every", d, d - time.Duration(int64(d)/frac), 0})
			}
		}
	}
	{
		{
			for _, tc := range tcases {
				kind, d, target, preRun := tc.kind, tc.d, tc.target, tc.preRun
				id++
				myid := id
				wg.Add(1)
				go func(kind string, d, target, preRun time.Duration) {
					defer wg.Done()
					// sleep until the wall clock is at `target` past a period boundary
					now := time.Now()
					cur := now.Sub(now.Truncate(d))
					wait := target - cur
					if wait < 0 {
						wait += d
					}
					time.Sleep(wait)
					var calls int32
					tok := tickToken{myid}
					var cbTime time.Time
					fn := func(t time.Time) tea.Msg { atomic.AddInt32(&calls, 1); cbTime = t; return tok }
					var cmd tea.Cmd
					var ctl *time.Timer
					t0 := time.Now()
					if kind == "every" {
						cmd = tea.Every(d, fn)
					} else {
						cmd = tea.Tick(d, fn)
					}
					t1 := time.Now()
					if kind == "every" {
						ctl = time.NewTimer(modelEveryDelay(t1, d))
					} else {
						ctl = time.NewTimer(d)
					}
					time.Sleep(preRun)
					run0 := time.Now()
					var msg tea.Msg
					got := make(chan tea.Msg, 1)
					go func() { got <- cmd() }()
					select {
					case msg = <-got:
					case <-time.After(3*d + 2*time.Second):
						// the command never delivered: reported as a result that is not the callback's (msg_ok false, calls as counted)
						msg = nil
					}
					run1 := time.Now()
					ctlTs := <-ctl.C
					rec := timerRec{Kind: kind, D: int64(d), Lo: absNS(t0), Hi: absNS(t1),
						ElTs: int64(cbTime.Sub(t0)), ElCtl: int64(ctlTs.Sub(t0)),
						ElRun: int64(run0.Sub(t0)), ElRet: int64(run1.Sub(t0)),
						Calls: atomic.LoadInt32(&calls), MsgOK: msg == tea.Msg(tok),
						Phase: int64(t0.Sub(t0.Truncate(d))), PreRun: int64(preRun)}
					mu.Lock()
					em.emit(rec)
					mu.Unlock()
				}(kind, d, target, preRun)
			}
		}
	}
	wg.Wait()
}
