"""Shared machinery for /verif/check: environment, build steps, Coq evaluation,
evidence, violation reporting.  Every count written to evidence is measured here."""
import hashlib
import json
import os
import re
import subprocess
import sys
import time

VERIF = os.path.dirname(os.path.dirname(os.path.abspath(__file__)))
REPO = os.environ.get("VERIF_REPO", "/repo")
COQ = os.path.join(VERIF, "coq")
BIN = os.path.join(VERIF, "bin")
CASES = os.path.join(COQ, "cases")
REPLAY = os.path.join(VERIF, "replay")
EVID = os.path.join(VERIF, "evidence")

ENV = dict(os.environ)
ENV.update({
    "GOFLAGS": "-mod=mod", "GOPROXY": "off", "GOSUMDB": "off", "GOTOOLCHAIN": "local",
    "CGO_ENABLED": "0",
})

TRUSTED_BASE_COMMON = [
    "Coq 8.16.1 kernel (coqc full .vo build; vm_compute used for reflection; no native_compute)",
    "axioms: none (Print Assumptions under every property theorem must print 'Closed under the global context')",
    "translator /verif/tools/goextract (Go, go/ast): trusted to report literals, constants, channel operations and call orders of the source",
    "correspondence harness /verif/harness (Go, build tag verif) + hook file /repo/verif_export.go",
    "python orchestrator /verif/check, /verif/lib (case-file generation, diffing)",
]


class Fail(Exception):
    pass


def log(*a):
    print(*a, file=sys.stderr, flush=True)


def run(cmd, cwd=None, timeout=600, env=None, check=False, input=None):
    t0 = time.time()
    try:
        p = subprocess.run(cmd, cwd=cwd, env=env or ENV, stdout=subprocess.PIPE,
                           stderr=subprocess.STDOUT, timeout=timeout, input=input,
                           text=True, errors="replace")
        out, rc = p.stdout, p.returncode
    except subprocess.TimeoutExpired as e:
        out = (e.stdout or b"")
        if isinstance(out, bytes):
            out = out.decode("utf8", "replace")
        out += "\n[TIMEOUT after %ds]" % timeout
        rc = 124
    if check and rc != 0:
        raise Fail("command failed (%d): %s\n%s" % (rc, " ".join(cmd), out[-4000:]))
    return rc, out, time.time() - t0


# ---------------------------------------------------------------- build steps

def build_goextract():
    os.makedirs(BIN, exist_ok=True)
    run(["go", "build", "-o", os.path.join(BIN, "goextract"), "."],
        cwd=os.path.join(VERIF, "tools", "goextract"), check=True, timeout=300)


def regen():
    """K1: regenerate coq/gen from the current /repo working tree."""
    build_goextract()
    run([os.path.join(BIN, "goextract"), REPO, os.path.join(COQ, "gen")], check=True, timeout=120)
    if os.environ.get("VERIF_VOCACHE") == "1":
        from . import vocache
        vocache.restore()


def ensure_makefile():
    mk = os.path.join(COQ, "Makefile")
    cp = os.path.join(COQ, "_CoqProject")
    if not os.path.exists(mk) or os.path.getmtime(mk) < os.path.getmtime(cp):
        run(["coq_makefile", "-f", "_CoqProject", "-o", "Makefile"], cwd=COQ, check=True)


def coq_make(targets=None, timeout=1500):
    """Full .vo build (never -vos).  Returns (ok, output)."""
    ensure_makefile()
    cmd = ["make", "-k", "-j16"] + (targets or [])
    rc, out, _ = run(cmd, cwd=COQ, timeout=timeout)
    return rc == 0, out


def first_coq_error(out):
    m = re.search(r'File "([^"]+)", line (\d+)[^\n]*\n(Error:[^\n]*(?:\n[^\n]+){0,6})', out)
    if m:
        return {"file": m.group(1), "line": int(m.group(2)), "error": m.group(3)[:600]}
    return {"file": "?", "line": 0, "error": out[-800:]}


FORBIDDEN = re.compile(r'\b(Admitted|admit|Axiom|Axioms|Parameter|Parameters|Conjecture|Abort All|bypass_check|Unset\s+Guard\s+Checking|Unset\s+Positivity\s+Checking|Unset\s+Universe\s+Checking|Admit\s+Obligations|native_compute)\b')


def strip_coq_comments(s):
    out, depth, i = [], 0, 0
    while i < len(s):
        if s.startswith("(*", i):
            depth += 1
            i += 2
        elif s.startswith("*)", i) and depth > 0:
            depth -= 1
            i += 2
        else:
            if depth == 0:
                out.append(s[i])
            i += 1
    return "".join(out)


def forbidden_scan():
    hits = []
    for root in (os.path.join(COQ, "theories"), os.path.join(COQ, "gen")):
        for d, _, fs in os.walk(root):
            for f in fs:
                if f.endswith(".v"):
                    p = os.path.join(d, f)
                    src = strip_coq_comments(open(p, errors="replace").read())
                    for m in FORBIDDEN.finditer(src):
                        hits.append("%s: %s" % (os.path.relpath(p, COQ), m.group(1)))
    return hits


def theorem_names(props_file):
    src = strip_coq_comments(open(os.path.join(COQ, "theories", "Props", props_file)).read())
    return re.findall(r'^\s*(?:Theorem|Lemma|Corollary)\s+([A-Za-z0-9_\']+)', src, re.M)


def coqc_file(path, timeout=900):
    rc, out, dt = run(["coqc", "-Q", "theories", "BT", "-Q", "gen", "BTGen", "-Q", "cases", "BTCases",
                       "-w", "-notation-overridden,-deprecated-hint-without-locality,-deprecated-instance-without-locality",
                       path], cwd=COQ, timeout=timeout)
    return rc, out, dt


def print_assumptions(prop_mod, names):
    """Re-run Print Assumptions for each property theorem against the compiled
    .vo files; returns {name: 'closed' | [axioms]}."""
    os.makedirs(CASES, exist_ok=True)
    path = os.path.join(CASES, "assume_%s.v" % prop_mod)
    with open(path, "w") as f:
        f.write("From BT Require Import Props.%s.\n" % prop_mod)
        for n in names:
            f.write('Goal True. idtac "@@BEGIN %s". Abort.\nPrint Assumptions %s.\n' % (n, n))
        f.write('Goal True. idtac "@@END". Abort.\n')
    rc, out, _ = coqc_file(path)
    if rc != 0:
        raise Fail("Print Assumptions failed for %s:\n%s" % (prop_mod, out[-2000:]))
    res = {}
    parts = re.split(r'@@BEGIN (\S+)\n', out)
    for i in range(1, len(parts) - 1, 2):
        body = parts[i + 1].split("@@END")[0].strip()
        if body.startswith("Closed under the global context"):
            res[parts[i]] = "closed"
        else:
            res[parts[i]] = [l.strip() for l in body.splitlines() if l.strip() and not l.startswith(" ")]
    return res


# ------------------------------------------------------- Coq-side evaluation

def coq_eval(name, preamble, body_lines, result_defs, timeout=900):
    """Write cases/<name>.v, compile it, and return {defname: printed text}.
    result_defs: list of definition names whose vm_compute'd value is printed
    between markers."""
    os.makedirs(CASES, exist_ok=True)
    path = os.path.join(CASES, name + ".v")
    with open(path, "w") as f:
        f.write(preamble)
        f.write("\n".join(body_lines))
        f.write("\n")
        for d in result_defs:
            f.write('Goal True. idtac "@@BEGIN %s". Abort.\nEval vm_compute in %s.\n' % (d, d))
        f.write('Goal True. idtac "@@END". Abort.\n')
    # every project module the case file imports is brought up to date first (a tie evaluated against a compiled
    # file older than the regenerated gen/*.v would silently describe yesterday's source)
    ok, mout = coq_make(required_targets(preamble))
    if not ok:
        raise Fail("building what %s imports failed:\n%s" % (path, json.dumps(first_coq_error(mout))))
    rc, out, dt = coqc_file(path, timeout=timeout)
    if rc != 0:
        raise Fail("coqc failed on %s:\n%s" % (path, out[-3000:]))
    res = {}
    parts = re.split(r'@@BEGIN (\S+)\n', out)
    for i in range(1, len(parts) - 1, 2):
        res[parts[i]] = parts[i + 1].split("@@END")[0].strip()
    return res, dt


def required_targets(text):
    """.vo targets of the project modules named by `From BT|BTGen Require [Import|Export] A B.C ...` in text"""
    targets = []
    for root, mods in re.findall(r'From\s+(BT|BTGen)\s+Require\s+(?:Import\s+|Export\s+)?(.*?)\.(?:\s|$)', text, re.S):
        for m in mods.split():
            rel = m.replace(".", "/") + ".vo"
            t = ("theories/" if root == "BT" else "gen/") + rel
            if os.path.exists(os.path.join(COQ, t[:-1])) and t not in targets:
                targets.append(t)
    return targets


def coq_eval_sharded(name, preamble, rows, rows_def, tail_lines, result_def, shard=120, timeout=1500, parallel=1):
    """Like coq_eval for one list-valued result computed from a big list of rows: the rows are split into shards, one coqc
    each (memory stays bounded), and the printed lists are concatenated.  rows_def: 'Definition rows : T := [%s].'
    parallel > 1: that many coqc processes at a time."""
    jobs = []
    for k in range(0, max(len(rows), 1), shard):
        part = rows[k:k + shard]
        jobs.append(("%s_%d" % (name, k // shard), [rows_def % ";\n ".join(part)] + list(tail_lines)))

    def work(job):
        vals, dt = coq_eval(job[0], preamble, job[1], [result_def], timeout=timeout)
        return parse_nat_list(re.sub(r'%N|%nat', '', parse_coq_value(vals[result_def]))), dt
    out, total = [], 0.0
    if parallel > 1 and len(jobs) > 1:
        # (the imported modules are brought up to date once, before the workers start)
        ok, mout = coq_make(required_targets(preamble))
        if not ok:
            raise Fail("building what %s imports failed:\n%s" % (name, json.dumps(first_coq_error(mout))))
        from concurrent.futures import ThreadPoolExecutor
        with ThreadPoolExecutor(max_workers=parallel) as ex:
            for o, dt in ex.map(work, jobs):
                out += o
                total += dt
    else:
        for job in jobs:
            o, dt = work(job)
            out += o
            total += dt
    return out, total


def parse_coq_value(txt):
    """'     = <value>\n     : type'  ->  '<value>' with whitespace collapsed."""
    m = re.match(r'=\s*(.*?)\s*:\s*[^:]*$', txt.strip(), re.S)
    v = m.group(1) if m else txt
    return re.sub(r'\s+', ' ', v).strip()


def parse_nat_list(v):
    v = v.strip()
    if v in ("[]", "nil"):
        return []
    if v.startswith("[") and v.endswith("]"):
        return [int(re.sub(r'%\w+', '', x)) for x in v[1:-1].split(";") if x.strip()]
    raise Fail("cannot parse list: %r" % v[:200])


def zlist(bs):
    return "[" + ";".join(str(b) for b in bs) + "]"


# ------------------------------------------------------------------ harness

_HARNESS = {}


def build_harness():
    """Rebuild the Go harness against the current /repo with hooks enabled (once per check process; run_harness
    calls it too, so that no family can run a binary built from an earlier tree)."""
    if "r" not in _HARNESS:
        _HARNESS["r"] = _build_harness()
    return _HARNESS["r"]


def _build_harness():
    os.makedirs(BIN, exist_ok=True)
    h = os.path.join(VERIF, "harness")
    # go.sum of the harness module must contain /repo's sums (offline)
    rsum = open(os.path.join(REPO, "go.sum")).read()
    extra = ""
    ep = os.path.join(h, "go.sum.extra")
    if os.path.exists(ep):
        extra = open(ep).read()
    with open(os.path.join(h, "go.sum"), "w") as f:
        f.write(rsum + extra)
    # the module under test is whatever VERIF_REPO points at (default /repo)
    gm = open(os.path.join(h, "go.mod")).read()
    gm2 = re.sub(r'replace github.com/charmbracelet/bubbletea => \S+', 'replace github.com/charmbracelet/bubbletea => ' + REPO, gm)
    if gm2 != gm:
        with open(os.path.join(h, "go.mod"), "w") as f:
            f.write(gm2)
    rc, out, dt = run(["go", "build", "-tags", "verif", "-o", os.path.join(BIN, "harness"), "."],
                      cwd=h, timeout=600)
    return rc == 0, out


def run_harness(args, timeout=900, env=None):
    okb, out = build_harness()
    if not okb:
        raise Fail("harness build failed (does the repository still compile with -tags verif?):\n" + out[-3000:])
    e = dict(ENV)
    if env:
        e.update(env)
    rc, out, dt = run([os.path.join(BIN, "harness")] + args, cwd=VERIF, timeout=timeout, env=e)
    return rc, out, dt


def read_jsonl(path):
    res = []
    with open(path) as f:
        for line in f:
            line = line.strip()
            if line:
                res.append(json.loads(line))
    return res


# ------------------------------------------------------- findings / verdict

def known_findings():
    p = os.path.join(VERIF, "known_findings.json")
    if not os.path.exists(p):
        return []
    return json.load(open(p)).get("findings", [])


def write_replay(prop, payload):
    os.makedirs(REPLAY, exist_ok=True)
    blob = json.dumps(payload, sort_keys=True, indent=1, default=str)
    h = hashlib.sha1(blob.encode()).hexdigest()[:10]
    path = os.path.join(REPLAY, "%s-%s.json" % (prop, h))
    with open(path, "w") as f:
        f.write(blob)
    return path


class Result:
    """Accumulates obligations, coverage and violations for one property run."""

    def __init__(self, prop, tier, seed):
        self.prop, self.tier, self.seed = prop, tier, seed
        self.t0 = time.time()
        self.obligations = []   # (name, ok, detail)
        self.violations = []    # dict(signature, what, replay_payload, found_input)
        self.coverage = {}
        self.assumptions = []
        self.samples = []
        self.evaluations = 0
        self.distinct = set()
        self.notes = []

    def oblige(self, name, ok, detail=""):
        self.obligations.append((name, bool(ok), detail))
        if not ok:
            log("  obligation FAILED: %s %s" % (name, str(detail)[:300]))
        return ok

    def violation(self, signature, what, payload, found_input=True):
        self.violations.append({"signature": signature, "what": what, "payload": payload,
                                "found_input": found_input})

    def count(self, key_for_distinct=None, n=1):
        self.evaluations += n
        if key_for_distinct is not None:
            self.distinct.add(key_for_distinct)

    def finish(self, level="proof", checker_cmd="", trusted_extra=None, rule="", extra_cov=None):
        kf = known_findings()
        new_viol = []
        lines = []
        for v in self.violations:
            matched = None
            for k in kf:
                if k.get("status") == "open" and k.get("property") == self.prop and re.search(k["signature"], v["signature"]):
                    matched = k
                    break
            if matched:
                lines.append("KNOWN-FINDING: property=%s %s [%s]" % (self.prop, matched["what"], v["signature"]))
            else:
                new_viol.append(v)
        seen = set()
        for l in lines:
            if l not in seen:
                print(l)
                seen.add(l)
        exit_code = 0
        reported = set()
        for v in new_viol:
            if v["signature"] in reported:
                continue
            reported.add(v["signature"])
            payload = dict(v["payload"])
            payload.update({"property": self.prop, "signature": v["signature"], "what": v["what"],
                            "seed": self.seed, "tier": self.tier})
            path = write_replay(self.prop, payload)
            tail = "" if v["found_input"] else " no-failing-input-found"
            print("VIOLATION property=%s replay=%s%s" % (self.prop, path, tail))
            log("  " + v["what"][:500])
            exit_code = 1
        nob = len(self.obligations)
        ndis = sum(1 for o in self.obligations if o[1])
        cov = {
            "obligations": nob,
            "discharged": ndis,
            "checker_cmd": checker_cmd or "make -C /verif/coq -j16 (coqc 8.16.1, full .vo) + coqc cases/*.v",
            "trusted_base": TRUSTED_BASE_COMMON + (trusted_extra or []),
            "evaluations": self.evaluations,
            "distinct_nontrivial": len(self.distinct),
            "rule": rule,
            "samples": self.samples[:12] if self.samples else ["(none)"],
            "obligation_list": [{"name": o[0], "ok": o[1], "detail": str(o[2])[:300]} for o in self.obligations],
        }
        cov.update(self.coverage)
        if extra_cov:
            cov.update(extra_cov)
        ev = {
            "property_id": self.prop, "tier": self.tier, "seed": self.seed, "level": level,
            "coverage": cov, "assumptions": self.assumptions, "wall_s": round(time.time() - self.t0, 2),
            "violations": len(reported),
            "known_findings_hit": sorted(seen),
            "notes": self.notes,
        }
        os.makedirs(EVID, exist_ok=True)
        with open(os.path.join(EVID, self.prop + ".json"), "w") as f:
            json.dump(ev, f, indent=1, default=str)
        log("%s %s: %d/%d obligations, %d evaluations, %d violations, %.1fs" %
            (self.prop, self.tier, ndis, nob, self.evaluations, len(reported), time.time() - self.t0))
        return exit_code


def proof_obligations(res, prop_mods, extra_targets=None):
    """Common K1+T step: regen, build the property's .vo closure, forbidden scan,
    Print Assumptions.  prop_mods: one Props module name or a list of them.
    Returns (ok, broken): ok when every proof obligation is discharged;
    otherwise `broken` says which one broke (the caller runs the search)."""
    if isinstance(prop_mods, str):
        prop_mods = [prop_mods]
    regen()
    targets = ["theories/Props/%s.vo" % m for m in prop_mods]
    ok, out = coq_make(targets + (extra_targets or []))
    if not ok:
        broken = first_coq_error(out)
        res.oblige("build:%s" % ",".join(targets), False, broken)
        res.notes.append({"broken_build": broken})
        return False, broken
    res.oblige("build:%s" % ",".join(targets), True)
    hits = forbidden_scan()
    res.oblige("no-forbidden-constructs", not hits, hits)
    allclosed = True
    allnames = []
    for m in prop_mods:
        names = theorem_names(m + ".v")
        pa = print_assumptions(m, names)
        for n in names:
            c = pa.get(n)
            okc = c == "closed"
            allclosed &= okc
            res.oblige("theorem:%s.%s (Print Assumptions: %s)" % (m, n, "closed" if okc else c), okc)
        allnames += ["%s.%s" % (m, n) for n in names]
    res.coverage["theorems"] = allnames
    if res.tier == "thorough":
        # independent re-check of the compiled files (and everything they depend on) + the axioms they rely on.
        # coqchk re-evaluates the reflection certificates with its own (non-VM) reduction, which takes long for the
        # skeleton: results are cached per state of the compiled tree, and a run that exceeds the limit is recorded as
        # "not completed" in the evidence instead of being counted as a discharged obligation
        key = hashlib.sha1(";".join(sorted("%s:%d:%d" % (os.path.relpath(os.path.join(d, f), COQ), os.path.getsize(os.path.join(d, f)), int(os.path.getmtime(os.path.join(d, f))))
                                          for root in ("theories", "gen") for d, _, fs in os.walk(os.path.join(COQ, root)) for f in fs if f.endswith(".vo"))).encode()).hexdigest()
        cpath = os.path.join(COQ, ".coqchk_cache.json")
        cache = {}
        if os.path.exists(cpath):
            try:
                cache = json.load(open(cpath))
            except ValueError:
                cache = {}
        if cache.get("key") != key:
            cache = {"key": key, "mods": {}}
        limit = int(os.environ.get("VERIF_COQCHK_TIMEOUT", "7200"))
        for m in prop_mods:
            ent = cache["mods"].get(m)
            if ent is None:
                rc, out, dt = run(["coqchk", "-silent", "-o", "-Q", "theories", "BT", "-Q", "gen", "BTGen", "BT.Props.%s" % m], cwd=COQ, timeout=limit)
                mm = re.search(r'\* Axioms:\s*(.*?)\n\s*\n', out, re.S)
                ent = {"seconds": round(dt), "axioms": (mm.group(1).strip() if mm else "?")[:300], "rc": rc, "tail": out[-300:]}
                cache["mods"][m] = ent
                with open(cpath, "w") as f:
                    json.dump(cache, f)
            res.coverage.setdefault("coqchk", {})[m] = {k: ent[k] for k in ("seconds", "axioms", "rc")}
            if ent["rc"] == 124:
                res.notes.append({"coqchk_not_completed": "BT.Props.%s: no verdict within %d s (the compiled proofs were checked by coqc; see coverage.coqchk)" % (m, limit)})
                continue
            okc = ent["rc"] == 0 and ent["axioms"] == "<none>"
            allclosed &= okc
            res.oblige("coqchk -o BT.Props.%s (%ds): axioms %s" % (m, ent["seconds"], ent["axioms"][:200]), okc, ent["tail"] if not okc else "")
    if not ((not hits) and allclosed):
        return False, {"file": "Props", "line": 0, "error": "forbidden construct or open assumption: %s" % (hits,)}
    return True, None
