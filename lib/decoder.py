"""Decoder family (C08 C09 C10 C11 C15): event generator, wire encoding, case
files for Coq, result comparison.  The Go harness is a dumb runner; every
random choice here derives from one seed."""
import json
import os
import random
import re

from . import common as C

ESC = 27


# ------------------------------------------------------------------ RefTable

def load_ref_table():
    src = open(os.path.join(C.COQ, "theories", "RefTable.v")).read()
    ents = []
    for m in re.finditer(r'\(\[([0-9;]+)\]%N, \(\((-?\d+)\)%Z, (true|false)\)\)', src):
        ents.append(([int(x) for x in m.group(1).split(";")], int(m.group(2)), m.group(3) == "true"))
    assert len(ents) > 100
    return ents


REF = None


def ref():
    global REF
    if REF is None:
        REF = load_ref_table()
    return REF


def is_ctl(b):
    return (1 <= b <= 31 and b != 27) or b == 127


def ref_ext_keys():
    ks = []
    for s, _, alt in ref():
        ks.append(s)
        if not alt:
            ks.append([ESC] + s)
    for b in range(128):
        if is_ctl(b):
            ks += [[b], [ESC, b]]
    ks += [[32], [ESC, 32], [ESC, ESC]]
    return ks


EXT = None


def ext():
    global EXT
    if EXT is None:
        EXT = ref_ext_keys()
    return EXT


# ------------------------------------------------------------------ encoding

def utf8(r):
    return list(chr(r).encode("utf8")) if not (0xD800 <= r <= 0xDFFF) else []


def itoa(n):
    return [ord(c) for c in str(n)]


def encode(e):
    k = e[0]
    if k == "key":
        s = ref()[e[1]][0]
        return ([ESC] if e[2] else []) + s
    if k == "ctl":
        return ([ESC] if e[2] else []) + [e[1]]
    if k == "space":
        return ([ESC] if e[1] else []) + [32]
    if k == "nul":
        return ([ESC] if e[1] else []) + [0]
    if k == "runes":
        return [b for r in e[1] for b in utf8(r)]
    if k == "altrune":
        return [ESC] + utf8(e[1])
    if k == "altesc":
        return [ESC, ESC]
    if k == "sgr":
        return [27, 91, 60] + itoa(e[1]) + [59] + itoa(e[2]) + [59] + itoa(e[3]) + [109 if e[4] else 77]
    if k == "x10":
        return [27, 91, 77, e[1] + 32, e[2] + 32, e[3] + 32]
    if k == "paste":
        return [27, 91, 50, 48, 48, 126] + list(e[1]) + [27, 91, 50, 48, 49, 126]
    if k == "csi":
        return [27, 91] + list(e[1]) + list(e[2]) + [e[3]]
    if k == "esc":
        return [ESC]
    if k == "focus":
        return [27, 91, 73]
    if k == "blur":
        return [27, 91, 79]
    raise ValueError(e)


def coq_event(e):
    k = e[0]
    b = lambda x: "true" if x else "false"  # noqa: E731
    if k == "key":
        return "EKey %d %s" % (e[1], b(e[2]))
    if k == "ctl":
        return "ECtl %d %s" % (e[1], b(e[2]))
    if k == "space":
        return "ESpace %s" % b(e[1])
    if k == "nul":
        return "ENul %s" % b(e[1])
    if k == "runes":
        return "ERunes %s" % C.zlist(e[1])
    if k == "altrune":
        return "EAltRune %d" % e[1]
    if k == "altesc":
        return "EAltEsc"
    if k == "sgr":
        return "EMouseSGR (%d)%%Z (%d)%%Z (%d)%%Z %s" % (e[1], e[2], e[3], b(e[4]))
    if k == "x10":
        return "EMouseX10 (%d)%%Z (%d)%%Z (%d)%%Z" % (e[1], e[2], e[3])
    if k == "paste":
        return "EPaste %s" % C.zlist(e[1])
    if k == "csi":
        return "EUnknownCSI %s %s %d" % (C.zlist(e[1]), C.zlist(e[2]), e[3])
    if k == "esc":
        return "EEsc"
    if k == "focus":
        return "EFocus"
    if k == "blur":
        return "EBlur"
    raise ValueError(e)


def coq_events(evs):
    return "[" + "; ".join(coq_event(e) for e in evs) + "]"


# ------------------------------------------------------- real output -> Coq

def coq_msg(desc):
    """String produced by tea.VerifDescribeMsg -> Coq msg term."""
    t = desc.split(" ", 1)
    k = t[0]
    if k == "K":
        m = re.match(r'K (-?\d+) \[([0-9 ]*)\] (true|false) (true|false)$', desc)
        runes = [int(x) for x in m.group(2).split()] if m.group(2).strip() else []
        return "MKey (%s)%%Z %s %s %s" % (m.group(1), C.zlist(runes), m.group(3), m.group(4))
    if k == "M":
        f = desc.split(" ")
        return "MMouse (%s)%%Z (%s)%%Z %s %s %s (%s)%%Z (%s)%%Z (%s)%%Z" % (f[1], f[2], f[3], f[4], f[5], f[6], f[7], f[8])
    if k == "F":
        return "MFocus"
    if k == "B":
        return "MBlur"
    if k == "U":
        return "MUnknownByte %s" % t[1]
    if k == "C":
        inner = t[1].strip()[1:-1]
        return "MUnknownCSI %s" % C.zlist([int(x) for x in inner.split()] if inner else [])
    # a message type the decoder did not have when the Spec was written: no specified event decodes to it, so it is
    # rendered as a message nothing in the Spec or the model produces (an "unknown byte" outside 0..255) and the input
    # is reported as a mismatch
    return "MUnknownByte 4096"


def coq_msgs(descs):
    return "[" + "; ".join(coq_msg(d) for d in descs) + "]"


WHY = {"err": "StopErr", "cancel": "StopCancelled", "panic": "StopPanic", "stall": "StopFuel", "nil": "StopScriptEnd"}


# ---------------------------------------------------------------- generators

def printable_scalar(rnd):
    c = rnd.random()
    if c < 0.6:
        return rnd.randint(33, 126)
    if c < 0.75:
        return rnd.choice([0xA0, 0xE9, 0x7FF, 0x80])
    if c < 0.9:
        return rnd.choice([0x800, 0xFFFF, 0x20AC, 0xD7FF, 0xE000, 0xFFFC, 0xFFFD, 0x4E2D])
    return rnd.choice([0x10000, 0x10FFFF, 0x1F600])


def gen_event(rnd, last=False, allow_fffd=True):
    c = rnd.random()
    if c < 0.22:
        i = rnd.randrange(len(ref()))
        alt = (not ref()[i][2]) and rnd.random() < 0.3
        return ("key", i, alt)
    if c < 0.30:
        b = rnd.choice([x for x in range(128) if is_ctl(x)])
        return ("ctl", b, rnd.random() < 0.3)
    if c < 0.35:
        return ("space", rnd.random() < 0.3)
    if c < 0.39:
        return ("nul", rnd.random() < 0.3)
    if c < 0.55:
        n = rnd.choice([1, 1, 2, 3, 5, 9])
        return ("runes", [printable_scalar(rnd) for _ in range(n)])
    if c < 0.62:
        return ("altrune", printable_scalar(rnd))
    if c < 0.64:
        return ("altesc",)
    if c < 0.74:
        code = rnd.choice([rnd.randrange(256), rnd.randrange(256), rnd.choice([0, 1, 2, 3, 32, 35, 64, 65, 128, 255, 256, 300, 1000])])
        x = rnd.choice([1, 2, 10, 80, 223, 224, 999, 9999, 2 ** 31, rnd.randint(1, 300)])
        y = rnd.choice([1, 2, 24, 223, 224, 5000, rnd.randint(1, 100)])
        return ("sgr", code, x, y, rnd.random() < 0.4)
    if c < 0.81:
        return ("x10", rnd.randrange(224), rnd.choice([1, 2, 95, 222, 223, rnd.randint(1, 223)]), rnd.choice([1, 50, 223, rnd.randint(1, 223)]))
    if c < 0.88:
        return ("paste", gen_payload(rnd, rnd.choice([0, 1, 3, 10, 40])))
    if c < 0.95:
        ps = [rnd.randint(48, 63) for _ in range(rnd.choice([0, 1, 2, 4]))]
        if rnd.random() < 0.25:
            ps = [60] + ps
        is_ = [rnd.randint(32, 47) for _ in range(rnd.choice([0, 0, 1, 2]))]
        return ("csi", ps, is_, rnd.randint(64, 126))
    if last:
        return rnd.choice([("esc",), ("focus",), ("blur",)])
    return ("ctl", 13, False)


def gen_payload(rnd, n):
    out = []
    while len(out) < n:
        c = rnd.random()
        if c < 0.5:
            out.append(rnd.randint(32, 126))
        elif c < 0.6:
            out += utf8(printable_scalar(rnd))
        elif c < 0.7:
            out += [27, 91] + [rnd.randint(48, 57)] + [rnd.choice([65, 126, 77])]
        elif c < 0.78:
            out += [27, 91, 60, 48, 59, 49, 59, 49, 77]
        elif c < 0.86:
            out.append(rnd.choice([0, 9, 10, 13, 27, 127]))
        elif c < 0.93:
            out.append(rnd.randint(128, 255))
        else:
            out += [27, 91, 50, 48, 49][:rnd.randint(1, 5)]  # partial end marker
    # never contain the end marker
    s = bytes(out)
    while b"\x1b[201~" in s:
        s = s.replace(b"\x1b[201~", b"\x1b[201")
    return list(s)


def is_prefix(p, l):
    return len(p) <= len(l) and l[:len(p)] == p


def csi_syntax(b):
    if len(b) < 3 or b[0] != 27 or b[1] != 91:
        return False
    i = 2
    while i < len(b) and 48 <= b[i] <= 63:
        i += 1
    while i < len(b) and 32 <= b[i] <= 47:
        i += 1
    return i < len(b) and 64 <= b[i] <= 126


def valid_event(e):
    k = e[0]
    if k == "csi":
        s = encode(e)
        if any(is_prefix(key, s) for key in ext()):
            return False
        if s == [27, 91, 50, 48, 48, 126]:
            return False
        if s[2] == 77:
            return False
        if re.match(rb'^\x1b\[<\d+;\d+;\d+[Mm]$', bytes(s)):
            return False
    if k == "paste":
        return b"\x1b[201~" not in bytes(e[1])
    return True


def clean(e, rest):
    s = encode(e)
    full = s + rest
    for key in ext():
        if len(key) > len(s) and is_prefix(key, full):
            return False
    k = e[0]
    if k == "altrune" and e[1] == 91 and csi_syntax(full):
        return False
    if k == "runes" and rest:
        b = rest[0]
        if not (b < 128 and not (32 < b < 127)):
            return False
    if k == "csi" and full in ([27, 91, 73], [27, 91, 79]):
        return False
    if k in ("esc", "focus", "blur") and rest:
        return False
    return True


def gen_stream(rnd, n):
    """A well-formed stream (by the Python copy of the rules; Coq decides)."""
    for _ in range(50):
        evs = []
        for i in range(n):
            for _ in range(20):
                e = gen_event(rnd, last=(i == n - 1))
                if valid_event(e):
                    break
            else:
                e = ("ctl", 13, False)
            evs.append(e)
        # repair cleanliness from the back
        ok = True
        rest = []
        for i in range(len(evs) - 1, -1, -1):
            tries = 0
            while not clean(evs[i], rest) and tries < 30:
                e = gen_event(rnd, last=(i == len(evs) - 1))
                if valid_event(e):
                    evs[i] = e
                tries += 1
            if not clean(evs[i], rest):
                ok = False
                break
            rest = encode(evs[i]) + rest
        if ok:
            return evs
    return [("ctl", 13, False)]


def chunk_bytes(bs, sizes):
    out, i, k = [], 0, 0
    while i < len(bs):
        n = sizes[k % len(sizes)]
        out.append(bs[i:i + n])
        i += n
        k += 1
    return out


# ------------------------------------------------------------- run + compare

def run_real(name, inputs):
    """inputs: list of dicts for the Go runner; returns list of outputs (same order)."""
    os.makedirs(C.CASES, exist_ok=True)
    ip = os.path.join(C.CASES, name + ".in.jsonl")
    op = os.path.join(C.CASES, name + ".out.jsonl")
    with open(ip, "w") as f:
        for i, d in enumerate(inputs):
            d = dict(d)
            d["id"] = i
            d.setdefault("cancel", -1)
            f.write(json.dumps(d) + "\n")
    rc, out, dt = C.run_harness(["decoder", "-out", op, ip], timeout=1800)
    if rc != 0:
        raise C.Fail("decoder harness failed: " + out[-2000:])
    outs = C.read_jsonl(op)
    assert len(outs) == len(inputs)
    return outs


COQ_PRE = """From Coq Require Import NArith ZArith List Bool.
Import ListNotations.
From BT Require Import Base.Bytes Model.Utf8 Model.Keys Model.Mouse Model.Decoder Model.Reader Spec.MouseSpec Spec.Events.
Open Scope N_scope.
Fixpoint idx {A : Type} (f : A -> bool) (l : list A) (i : nat) : list nat :=
  match l with nil => @nil nat | x :: t => (if f x then cons i nil else @nil nat) ++ idx f t (S i) end.
Fixpoint msg_eqb (a b : msg) : bool :=
  match a, b with
  | MKey t1 r1 a1 p1, MKey t2 r2 a2 p2 => (t1 =? t2)%Z && bytes_eqb r1 r2 && Bool.eqb a1 a2 && Bool.eqb p1 p2
  | MMouse x1 y1 s1 a1 c1 ac1 b1 t1, MMouse x2 y2 s2 a2 c2 ac2 b2 t2 =>
    (x1 =? x2)%Z && (y1 =? y2)%Z && Bool.eqb s1 s2 && Bool.eqb a1 a2 && Bool.eqb c1 c2 && (ac1 =? ac2)%Z && (b1 =? b2)%Z && (t1 =? t2)%Z
  | MFocus, MFocus => true | MBlur, MBlur => true
  | MUnknownByte x, MUnknownByte y => x =? y
  | MUnknownCSI x, MUnknownCSI y => bytes_eqb x y
  | _, _ => false
  end.
(* Messages received from the real reader goroutine: the bytes of an
   unknownCSISequenceMsg alias the read buffer (key_sequences.go returns
   input[:n]) and may already be overwritten by the next Read when the
   consumer looks at them; only their length is stable, so only the length is
   compared for messages that crossed the channel. *)
Definition msg_eqb_r (a b : msg) : bool :=
  match a, b with
  | MUnknownCSI x, MUnknownCSI y => Nat.eqb (length x) (length y)
  | _, _ => msg_eqb a b
  end.
Fixpoint msgs_eqb (a b : list msg) : bool :=
  match a, b with [] , [] => true | x :: a', y :: b' => msg_eqb_r x y && msgs_eqb a' b' | _, _ => false end.
Definition stop_eqb (a b : stop) : bool :=
  match a, b with StopErr, StopErr | StopCancelled, StopCancelled | StopScriptEnd, StopScriptEnd | StopPanic, StopPanic | StopFuel, StopFuel => true | _, _ => false end.
Definition dres_eqb (a b : dres) : bool :=
  match a, b with DMsg w m, DMsg w' m' => Nat.eqb w w' && msg_eqb m m' | DMore, DMore => true | DPanic, DPanic => true | _, _ => false end.
(* unified case: (is_stream, events, chunks, cancel, real msgs, real stop) *)
Definition ucase := (bool * list event * list bytes * option nat * list msg * stop)%type.
Definition is_mark (b : bytes) : bool := match b with [999] => true | _ => false end.
Fixpoint script_of (c : list bytes) : list chunk :=
  match c with
  | [] => [ReadErr]
  | [b; m] => if is_mark m then [ChunkErr b] else [Chunk b; Chunk m; ReadErr]
  | b :: t => Chunk b :: script_of t
  end.
Definition model_read_ok (c : ucase) : bool :=
  let '(_, _, chunks, cancel, real, why) := c in
  let r := reader (script_of chunks) cancel in
  msgs_eqb (map fst (rd_out r)) real && stop_eqb (rd_why r) why.
(* at which read (1-based count of Read calls) the model delivers each message: an event is delivered while the read that
   completed it is being processed, unless its bytes may still be incomplete *)
Fixpoint at_from (script : list chunk) (left : bytes) (sent k : nat) (cancel : option nat) : list nat :=
  match script with
  | [] => []
  | ReadErr :: _ => repeat k (length (rd_out (read_end left [] sent cancel)))
  | ChunkErr bs :: _ => repeat k (length (rd_out (read_end left bs sent cancel)))
  | Chunk bs :: rest =>
    let b := left ++ bs in
    match inner (length b) b (Nat.eqb (length bs) buf_size) sent cancel with
    | IDone o s => repeat k (length o) ++ at_from rest [] s (S k) cancel
    | ILeft o s r => repeat k (length o) ++ at_from rest r s (S k) cancel
    | ICancel o | IPanic o => repeat k (length o)
    | IFuel => []
    end
  end.
Fixpoint nats_eqb (a b : list nat) : bool :=
  match a, b with [], [] => true | x :: a', y :: b' => Nat.eqb x y && nats_eqb a' b' | _, _ => false end.
(* (chunks, real read indices): the real reader delivered no message later than the model does *)
Definition acase := (list bytes * list nat)%type.
Definition at_ok (c : acase) : bool := let '(chunks, real) := c in nats_eqb (at_from (script_of chunks) [] 0 1 None) real.
Definition enc_ok (c : ucase) : bool := let '(st, evs, chunks, _, _, _) := c in negb st || bytes_eqb (encode_all evs) (concat (filter (fun b => negb (is_mark b)) chunks)).
Definition wf_ok (c : ucase) : bool := let '(st, evs, _, _, _, _) := c in st && wf_stream evs.
Definition spec_ok (c : ucase) : bool :=
  let '(_, evs, _, _, real, _) := c in msgs_eqb (map msg_proj real) (map (fun e => msg_proj (expect e)) evs).
Definition is_stream (c : ucase) : bool := let '(st, _, _, _, _, _) := c in st.
(* detect case *)
Definition dcase := (bytes * bool * dres)%type.
Definition model_detect_ok (c : dcase) : bool := let '(b, more, real) := c in dres_eqb (detect_one_msg b more) real.
"""


def coq_chunks(chunks):
    return "[" + "; ".join(C.zlist(c) for c in chunks) + "]"


def coq_ucase(evs, chunks, cancel, out):
    why = WHY.get(out["why"], "StopFuel")
    return "(%s, %s, %s, %s, %s, %s)" % ("true" if evs is not None else "false",
                                          coq_events(evs) if evs is not None else "[]",
                                          coq_chunks(chunks), ("Some %d%%nat" % cancel) if cancel >= 0 else "None",
                                          coq_msgs(out.get("msgs") or []), why)


def coq_dcase(b, more, out):
    if out.get("panic"):
        real = "DPanic"
    elif out["w"] == 0:
        real = "DMore"
    else:
        real = "DMsg %d%%nat (%s)" % (out["w"], coq_msg(out["msg"]))
    return "(%s, %s, %s)" % (C.zlist(b), "true" if more else "false", real)


def evaluate(name, ucases=None, dcases=None, shard=100, timeout=1500, acases=None):
    """Evaluates model equality / spec predicates in Coq (vm_compute), sharded
    over parallel coqc processes.  Returns dict of failing index lists."""
    from concurrent.futures import ThreadPoolExecutor
    res = {"model_read": [], "enc": [], "wf_false": [], "spec": [], "model_detect": [], "at": []}
    jobs = []

    def shards(l):
        return [(i, l[i:i + shard]) for i in range(0, len(l), shard)]
    k = 0
    for base, part in shards(ucases or []):
        body = ["Definition ucases : list ucase := [\n%s ]." % ";\n".join(part),
                "Definition bad_model := idx (fun c => negb (model_read_ok c)) ucases 0%nat.",
                "Definition bad_enc := idx (fun c => negb (enc_ok c)) ucases 0%nat.",
                "Definition not_wf := idx (fun c => is_stream c && negb (wf_ok c)) ucases 0%nat.",
                "Definition bad_spec := idx (fun c => wf_ok c && negb (spec_ok c)) ucases 0%nat."]
        jobs.append(("%s_u%d" % (name, k), body, {"bad_model": "model_read", "bad_enc": "enc", "not_wf": "wf_false", "bad_spec": "spec"}, base))
        k += 1
    for base, part in shards(dcases or []):
        body = ["Definition dcases : list dcase := [\n%s ]." % ";\n".join(part),
                "Definition bad_detect := idx (fun c => negb (model_detect_ok c)) dcases 0%nat."]
        jobs.append(("%s_d%d" % (name, k), body, {"bad_detect": "model_detect"}, base))
        k += 1

    for base, part in shards(acases or []):
        body = ["Definition acases : list acase := [\n%s ]." % ";\n".join(part),
                "Definition bad_at := idx (fun c => negb (at_ok c)) acases 0%nat."]
        jobs.append(("%s_a%d" % (name, k), body, {"bad_at": "at"}, base))
        k += 1

    def work(job):
        nm, body, defs, base = job
        vals, dt = C.coq_eval(nm, COQ_PRE, body, list(defs), timeout=timeout)
        return [(defs[d], [base + i for i in C.parse_nat_list(C.parse_coq_value(vals[d]))]) for d in defs], dt
    total = 0.0
    with ThreadPoolExecutor(max_workers=14) as ex:
        for outs, dt in ex.map(work, jobs):
            total += dt
            for key, l in outs:
                res[key] += l
    for key in list(res):
        res[key].sort()
    res["coq_cpu_seconds"] = round(total, 1)
    res["coq_shards"] = len(jobs)
    return res


def event_kinds_hist(streams):
    h = {}
    for evs in streams:
        for e in evs:
            h[e[0]] = h.get(e[0], 0) + 1
    return h


# ------------------------------------------------------------ family driver

CORPUS = os.path.join(C.VERIF, "harness", "corpus", "decoder.jsonl")


def load_corpus(prop):
    out = []
    if os.path.exists(CORPUS):
        for d in C.read_jsonl(CORPUS):
            if prop in d.get("props", []):
                d = dict(d)
                if d.get("evs") is not None:
                    d["evs"] = [tuple(e) for e in d["evs"]]
                d["tag"] = "corpus:" + d.get("tag", "")
                out.append(d)
    return out


def stream_case(evs, sizes=None, err="eof", cancel=-1, tag=""):
    bs = [b for e in evs for b in encode(e)]
    chunks = chunk_bytes(bs, sizes or [256]) if bs else [[]]
    if len(chunks[-1]) == 256:
        chunks.append([])       # the last read of a script is short (C09 held_ok)
    return {"evs": list(evs), "chunks": chunks, "err": err, "cancel": cancel, "tag": tag}


def bytes_case(bs, sizes=None, err="eof", cancel=-1, tag=""):
    chunks = chunk_bytes(list(bs), sizes or [256]) if bs else [[]]
    return {"evs": None, "chunks": chunks, "err": err, "cancel": cancel, "tag": tag}


def first_diff_kind(case, out):
    """best-effort label of where a stream case went wrong (for signatures)."""
    if case.get("evs"):
        return case["evs"][min(len(out.get("msgs") or []), len(case["evs"])) - 1][0] if case["evs"] else "?"
    return "bytes"


def run_family(res, prop, prop_mod, cases, dcases=None, spec_on_streams=True, rule="", extra_trusted=None,
               real_oracle=None):
    """cases: list of read cases (stream_case / bytes_case); dcases: list of
    dicts {b, more}.  real_oracle(case, out) -> None | (signature, what): extra
    Spec predicate evaluated directly on the real output."""
    proofs_ok, broken = C.proof_obligations(res, prop_mod)
    okb, out = C.build_harness()
    if not okb:
        raise C.Fail("harness build failed (does /repo still compile with -tags verif?):\n" + out[-3000:])
    cases = load_corpus(prop) + cases
    dcases = dcases or []
    inputs = [{"op": "read", "chunks": c["chunks"], "err": c["err"], "cancel": c["cancel"], "greedy": bool(c.get("greedy")),
               "err_with_last": bool(c.get("err_with_last"))} for c in cases]
    inputs += [{"op": "detect", "b": d["b"], "more": d["more"]} for d in dcases]
    outs = run_real(prop, inputs)
    routs, douts = outs[:len(cases)], outs[len(cases):]
    # (a script whose last read returns its bytes together with the error is marked by an impossible chunk [999] behind it)
    ucs = [coq_ucase(c["evs"], c["chunks"] + ([[999]] if c.get("err_with_last") else []), c["cancel"], o) for c, o in zip(cases, routs)]
    dcs = [coq_dcase(d["b"], d["more"], o) for d, o in zip(dcases, douts)]
    at_idx = [i for i, (c, o) in enumerate(zip(cases, routs)) if c["cancel"] < 0 and o.get("why") == "err" and not c.get("greedy") and "at" in o]
    acs = ["(%s, [%s])" % (coq_chunks(cases[i]["chunks"] + ([[999]] if cases[i].get("err_with_last") else [])),
                            "; ".join("%d%%nat" % x for x in routs[i]["at"])) for i in at_idx]
    ev = evaluate(prop, ucases=ucs, dcases=dcs, acases=acs)
    ev["at"] = [at_idx[j] for j in ev["at"]]
    if ev["enc"]:
        i = ev["enc"][0]
        raise C.Fail("generator/Spec encode disagreement on case %d: %r" % (i, cases[i]["evs"]))
    # coverage
    for c in cases:
        key = (tuple(tuple(x) for x in c["chunks"]), c["cancel"], c["err"], bool(c.get("err_with_last")))
        res.count(hash(key))
    for d in dcases:
        res.count(hash((tuple(d["b"]), d["more"])))
    streams = [c["evs"] for c in cases if c["evs"] is not None]
    n_wf = len(streams) - len(ev["wf_false"])
    tags = {}
    for c in cases + dcases:
        t = c.get("tag", "").split(":")[0]
        tags[t] = tags.get(t, 0) + 1
    res.coverage["input_distribution"] = {
        "read_cases": len(cases), "detect_cases": len(dcases), "stream_cases": len(streams),
        "well_formed_streams": n_wf, "event_kinds": event_kinds_hist(streams), "by_generator": tags,
        "multi_read_cases": sum(1 for c in cases if len(c["chunks"]) > 1),
        "full_buffer_reads": sum(1 for c in cases for ch in c["chunks"] if len(ch) == 256),
        "cancelled_cases": sum(1 for c in cases if c["cancel"] >= 0),
        "bytes_total": sum(len(ch) for c in cases for ch in c["chunks"]),
    }
    res.coverage["traces_validated_against_impl"] = len(cases) + len(dcases)
    res.coverage["coq_eval"] = {"shards": ev["coq_shards"], "cpu_seconds": ev["coq_cpu_seconds"]}
    res.samples = [{"events": [list(e) for e in c["evs"]][:6] if c["evs"] else None, "chunks": [ch[:24] for ch in c["chunks"][:3]],
                    "real": (o.get("msgs") or [])[:6], "why": o.get("why")} for c, o in list(zip(cases, routs))[:3]]
    res.samples += [{"detect": d["b"][:24], "more": d["more"], "real": o} for d, o in list(zip(dcases, douts))[:2]]
    # obligations
    res.oblige("K2:model = implementation on %d read scripts" % len(cases), not ev["model_read"],
               [(cases[i]["chunks"], routs[i]) for i in ev["model_read"][:2]])
    if dcases:
        res.oblige("K2:model = implementation on %d detectOneMsg calls" % len(dcases), not ev["model_detect"],
                   [(dcases[i], douts[i]) for i in ev["model_detect"][:2]])
    found = False
    if spec_on_streams:
        res.oblige("Spec on real output: decode(encode evs) = expect evs on %d well-formed streams" % n_wf, not ev["spec"],
                   [(cases[i]["evs"], routs[i].get("msgs")) for i in ev["spec"][:2]])
        for i in ev["spec"][:1]:
            c, o = shrink_stream(prop, cases[i], routs[i])
            res.violation("%s:spec:%s" % (prop, first_diff_kind(c, o)),
                          "real decoder output differs from the specified messages for a well-formed event stream",
                          {"events": [list(e) for e in c["evs"]], "chunks": c["chunks"], "real": o, "err_with_last": bool(c.get("err_with_last"))})
            found = True
    # a pasted KeyMsg prints as "[text]", never like a key press (that is how applications tell the two apart)
    bad_str = []
    for i, o in enumerate(routs):
        for d, st in zip(o.get("msgs") or [], o.get("strs") or []):
            m = re.match(r'K (-?\d+) \[([0-9 ]*)\] (true|false) true$', d)
            if m:
                text = "".join(chr(int(x)) for x in m.group(2).split())
                if st != "[" + text + "]":
                    bad_str.append((i, text, st))
                    break
    if any(o.get("strs") for o in routs):
        res.oblige("Spec on real output: a paste message prints as [text], never as the key it would be if typed", not bad_str,
                   [(t[:20], s_[:20]) for _, t, s_ in bad_str[:2]])
    for i, text, st in bad_str[:1]:
        res.violation("%s:paste-string" % prop, "the paste message for %r prints as %r: indistinguishable from typed input" % (text[:40], st[:40]),
                      {"chunks": cases[i]["chunks"], "real": routs[i]})
        found = True
    # generic real-output predicates: no panic, no stall, stop reason as scripted
    bad_total = []
    for i, (c, o) in enumerate(zip(cases, routs)):
        want = "cancel" if False else None
        if o["why"] in ("panic", "stall", "flood") or o["why"].startswith("other") or o["why"] == "nil":
            bad_total.append(i)
    for i, (d, o) in enumerate(zip(dcases, douts)):
        if o.get("panic") and len(d["b"]) > 0:
            bad_total.append(len(cases) + i)
    res.oblige("Spec on real output: no panic, no stall, reader stops with the scripted error or cancellation", not bad_total,
               [(inputs[i], outs[i]) for i in bad_total[:2]])
    for i in bad_total[:1]:
        res.violation("%s:total:%s" % (prop, outs[i].get("why") or "panic"),
                      "the real reader panicked, stalled or stopped for the wrong reason", {"input": inputs[i], "real": outs[i]})
        found = True
    # accounting oracle on the real output (C09): the messages the reader
    # delivered must be those of the accounting loop run over the real
    # detectOneMsg (adjacent, ordered, non-empty runs; carry-over only on w=0)
    def norm(ms):
        return [re.sub(r'^C \[.*\]$', lambda m: "C len=%d" % len(m.group(0).split()), x) for x in ms]
    bad_acc = []
    for i, (c, o) in enumerate(zip(cases, routs)):
        if o["why"] not in ("err", "cancel"):
            continue
        real, refm = norm(o.get("msgs") or []), norm(o.get("ref") or [])
        if o["why"] == "err" and real != refm:
            bad_acc.append(i)
        elif o["why"] == "cancel" and real != refm[:len(real)]:
            bad_acc.append(i)
    res.oblige("Spec on real output: delivered messages = adjacent, ordered, non-empty runs of the input (accounting loop over the real detectOneMsg)",
               not bad_acc, [(cases[i]["chunks"][:3], routs[i].get("msgs", [])[:5], routs[i].get("ref", [])[:5]) for i in bad_acc[:2]])
    for i in bad_acc[:1]:
        res.violation("%s:accounting" % prop, "the real reader lost, repeated or re-ordered input bytes: its messages differ from the adjacent-run accounting of the same reads",
                      {"chunks": cases[i]["chunks"], "real": routs[i].get("msgs"), "accounting": routs[i].get("ref"), "widths": routs[i].get("ref_w"),
                       "err_with_last": bool(cases[i].get("err_with_last"))})
        found = True
    # nothing is held back after a short read (an event boundary) unless a paste is still open: when the reader has
    # stopped with the scripted error, the runs cover the whole input
    bad_held = []
    for i, (c, o) in enumerate(zip(cases, routs)):
        if o["why"] != "err" or "ref_w" not in o and not o.get("ref"):
            continue
        chunks = [ch for ch in c["chunks"]]
        flat = [b for ch in chunks for b in ch]
        last = chunks[-1] if chunks else []
        covered = sum(o.get("ref_w") or [])
        held = flat[covered:]
        if held and not _open_paste(held) and not any("PANIC" in x for x in (o.get("ref") or [])):
            bad_held.append((i, held))
    res.oblige("Spec on real output: when the input has ended nothing is held back (unless a paste is still open): the runs cover the whole input",
               not bad_held, [(cases[i]["chunks"][-2:], h[:8]) for i, h in bad_held[:2]])
    for i, h in bad_held[:1]:
        res.violation("%s:held-back" % prop, "the input ended and %d byte(s) %s were never turned into a message" % (len(h), h[:8]),
                      {"chunks": cases[i]["chunks"], "real": routs[i].get("msgs"), "widths": routs[i].get("ref_w")})
        found = True
    # nothing complete is kept waiting: every message is delivered while the read that completed its event is being
    # processed, unless its bytes could still be the beginning of a longer event (Spec = the model's need-more test,
    # evaluated in Coq on the real delivery points: how many Read calls had been made when each message arrived)
    bad_at = [i for i in ev["at"] if i not in ev["model_read"]]
    if at_idx:
        res.oblige("Spec on real output: no complete event is kept waiting for the next read (%d scripts)" % len(at_idx), not bad_at,
                   [(cases[i]["chunks"][-2:], routs[i].get("at")) for i in bad_at[:2]])
    for i in bad_at[:1]:
        res.violation("%s:held-complete" % prop, "a message was delivered at a later read than the one that completed its event (reads at delivery: %s): bytes were held back although no longer event could begin with them" % (routs[i].get("at"),),
                      {"chunks": cases[i]["chunks"], "real": routs[i].get("msgs"), "at": routs[i].get("at"), "err_with_last": bool(cases[i].get("err_with_last"))})
        found = True
    if real_oracle:
        bad = []
        for i, (c, o) in enumerate(zip(cases, routs)):
            r = real_oracle(c, o)
            if r:
                bad.append((i, r))
        res.oblige("Spec on real output: property-specific oracle", not bad, [(cases[i]["chunks"], r) for i, r in bad[:2]])
        for i, r in bad[:1]:
            res.violation(r[0], r[1], {"chunks": cases[i]["chunks"], "events": [list(e) for e in (cases[i]["evs"] or [])], "real": routs[i]})
            found = True
    if not found:
        mism = ev["model_read"] + [len(cases) + i for i in ev["model_detect"]]
        if not proofs_ok or mism:
            what = []
            if not proofs_ok:
                what.append("proof obligation no longer checks: %s" % (broken,))
            if mism:
                what.append("correspondence model/implementation broken on %d inputs (Spec predicates still hold on the real output)" % len(mism))
            res.violation("%s:obligation" % prop, "; ".join(what),
                          {"broken": broken, "mismatching_inputs": [inputs[i] for i in mism[:3]], "real": [outs[i] for i in mism[:3]],
                           "searched": "%d read scripts + %d detect calls; Spec held on all real outputs" % (len(cases), len(dcases))},
                          found_input=False)
    return res.finish(rule=rule, trusted_extra=(extra_trusted or []) + [
        "Go regexp, strconv.Atoi, unicode/utf8 are mirrored by model functions (match_sgr, unknown_csi, incomplete_csi, atoi_sat, decode_rune, full_rune) and compared with the real library through the harness",
        "content of unknownCSISequenceMsg is compared by length only for messages that crossed the reader's channel (the slice aliases the read buffer; see DESIGN.md F11)"])


def _open_paste(held):
    """the held-back bytes start a bracketed paste that never ends"""
    start, end = [27, 91, 50, 48, 48, 126], [27, 91, 50, 48, 49, 126]
    if held[:6] != start:
        return False
    return not any(held[i:i + 6] == end for i in range(6, len(held) - 5))


def shrink_stream(prop, case, out):
    """delta-debug a failing stream case: drop events while the real output still
    differs from what the remaining events specify (judged by re-running Coq on
    the candidate).  Bounded effort."""
    evs = list(case["evs"])
    best = (case, out)
    budget = 12
    i = 0
    while i < len(evs) and budget > 0 and len(evs) > 1:
        cand = evs[:i] + evs[i + 1:]
        c2 = stream_case(cand, sizes=[len(ch) for ch in case["chunks"]] if len(case["chunks"]) > 1 else None)
        ewl = bool(case.get("err_with_last"))
        if ewl:
            c2["err_with_last"] = True
        o2 = run_real(prop + "_shrink", [{"op": "read", "chunks": c2["chunks"], "err": "eof", "cancel": -1, "err_with_last": ewl}])[0]
        ev = evaluate(prop + "_shrink", ucases=[coq_ucase(c2["evs"], c2["chunks"] + ([[999]] if ewl else []), -1, o2)])
        budget -= 1
        if ev["spec"] and not ev["enc"]:
            evs = cand
            best = (c2, o2)
        else:
            i += 1
    return best


def replay_family(res, prop, prop_mod, path, **kw):
    """./check Cxx --replay file: re-run exactly the recorded input against /repo."""
    d = json.load(open(path))
    cases, dcases = [], []
    inp = d.get("input")
    if d.get("chunks") is not None:
        evs = [tuple(e) for e in d["events"]] if d.get("events") else None
        cases.append({"evs": evs, "chunks": d["chunks"], "err": "eof", "cancel": -1, "tag": "replay", "err_with_last": bool(d.get("err_with_last"))})
    elif inp and inp.get("op") == "read":
        cases.append({"evs": None, "chunks": inp["chunks"], "err": inp.get("err", "eof"), "cancel": inp.get("cancel", -1), "tag": "replay", "err_with_last": bool(inp.get("err_with_last"))})
    elif inp and inp.get("op") == "detect":
        dcases.append({"b": inp["b"], "more": inp.get("more", False), "tag": "replay"})
    for m in d.get("mismatching_inputs", []):
        if m.get("op") == "read":
            cases.append({"evs": None, "chunks": m["chunks"], "err": m.get("err", "eof"), "cancel": m.get("cancel", -1), "tag": "replay", "err_with_last": bool(m.get("err_with_last"))})
        elif m.get("op") == "detect":
            dcases.append({"b": m["b"], "more": m.get("more", False), "tag": "replay"})
    if not cases and not dcases:
        raise C.Fail("replay file has no input: " + path)
    global load_corpus
    saved = load_corpus
    load_corpus = lambda prop: []   # noqa: E731
    try:
        rc = run_family(res, prop, prop_mod, cases, dcases, rule="replay of " + os.path.basename(path), **kw)
    finally:
        load_corpus = saved
    ev = json.load(open(os.path.join(C.EVID, prop + ".json")))
    print(json.dumps(ev["coverage"]["samples"], indent=1)[:3000])
    return rc
