"""Shared by C04 C05 C13 C17 C18: the skeleton obligations (K1 + T), the
model-level counterexample search when one breaks, and the Coq evaluation of
the Spec predicates on the outcomes of real runs."""
import re

from . import common as C
from . import program as P

PRE = ("From Coq Require Import List Bool NArith String.\nImport ListNotations.\n"
       "From BT Require Import Model.Skel Model.SkelTie Proof.SkelCert Spec.LifeSpec Model.VT.\n")

# obligation name -> Coq predicate over skeleton states (closed terms given G)
OBLIGATIONS = {
    "no-dead-end": "progress_at G",
    "error-class": "error_ok",
    "restored-at-return": "(fun s => negb (is_returned s) || restored_last s)",
    "released-at-return": "(fun s => negb (is_returned s) || (ctx s && match fin s with FinClosed => true | _ => false end))",
    "exec-quiet": "(fun s => match run s with RExecRun => match tk s with TkListen => false | _ => true end && match rd s with RdReading => false | _ => true end && ign s && restored_last s | _ => true end)",
    "without-signals": "(fun s => negb (nosig s) || match sg s with SgSendInt | SgSendQuit => false | _ => true end)",
    "handler-alive": "(fun s => match sg s with SgDone => struck s | _ => true end)",
    "signals-count-at-select": "(fun s => match run s with RSelect => negb (ign s) || nosig s | _ => true end)",
    "ignored-signals": "(fun s => negb (ign s) || forallb (fun e => (match sg s with SgSendInt | SgSendQuit => true | _ => false end || negb (match sg (snd e) with SgSendInt | SgSendQuit => true | _ => false end)) && match sg s, sg (snd e), fst e with SgWait, SgDone, KEnv => false | _, _, _ => true end) (steps G s))",
}


def guards_report():
    """the guards computed from gen/, as {name: bool} (evaluated by coqc)"""
    body = ["Definition Gx := Eval vm_compute in guards_of_gen.",
            "Definition flags := Eval vm_compute in (api_guarded, rendezvous_channels, nothing_unsupported)."]
    vals, _ = C.coq_eval("cases_guards", PRE, body, ["Gx", "flags"], timeout=300)
    g = dict(re.findall(r'(g_\w+) := (true|false)', vals["Gx"]))
    fl = re.findall(r'true|false', vals["flags"])
    out = {k: v == "true" for k, v in g.items()}
    for name, v in zip(("api_guarded", "rendezvous_channels", "nothing_unsupported"), fl):
        out[name] = v == "true"
    return out


def model_cex(names):
    """For each obligation name: the shortest skeleton path (from an initial state) to a state violating it under
    the guards extracted from the CURRENT source, or None.  Executed inside Coq (vm_compute on the model)."""
    body = ["Definition G := Eval vm_compute in guards_of_gen.",
            "Definition show (p : option (list (ekind * skel))) := match p with None => None | Some l => Some (map (fun e => (fst e, run (snd e), (cd (snd e), sg (snd e), ifw (snd e), rd (snd e), tk (snd e)), (kx (snd e), ctx (snd e), ign (snd e), fin (snd e), restored_last (snd e), dec (snd e)))) l) end."]
    defs = []
    for i, n in enumerate(names):
        body.append("Definition cex%d := show (find_bad G (%s))." % (i, OBLIGATIONS[n]))
        defs.append("cex%d" % i)
    vals, dt = C.coq_eval("cases_skel_cex", PRE, body, defs, timeout=1500)
    out = {}
    for i, n in enumerate(names):
        v = C.parse_coq_value(vals["cex%d" % i])
        out[n] = None if v.startswith("None") else v
    return out, dt


def eval_outcomes(res, name, pairs):
    """Spec.LifeSpec.outcome_ok evaluated by Coq on every real outcome; returns the set of failing ids."""
    if not pairs:
        return set()
    rows = []
    for meta, r in pairs:
        cs = "[" + "; ".join(P.CAUSE_COQ[c] for c in P.allowed_causes(meta)) + "]"
        rows.append("(%d%%N, Build_outcome %s %s %s)" % (r["id"], cs, "true" if r["run_returned"] else "false", P.err_coq(r)))
    tail = ["Definition bad := map fst (filter (fun x => negb (outcome_ok (snd x))) outs)."]
    bad, _ = C.coq_eval_sharded("cases_%s_outcomes" % name, PRE, rows, "Definition outs : list (N * outcome) := [%s].", tail, "bad", shard=400, timeout=600)
    return set(bad)


def eval_final_modes(res, name, items):
    """items: [(id, mode tokens)] -> ids whose final terminal modes are not the defaults, for BOTH cursor-visibility
    conventions, evaluated by Coq on the real mode-token stream."""
    if not items:
        return set()
    rows = ["(%d%%N, %s)" % (i, P.coq_mode_toks(t)) for i, t in items]
    tail = ["Definition clean (sh : bool) (ks : list tok) : bool := let t := vt_run sh (vt_init 80 24 [] 0) ks in "
            "negb (in_alt t) && vis_main t && negb (m_cell t) && negb (m_all t) && negb (m_sgr t) && negb (m_paste t) && negb (m_focus t).",
            "Definition bad := map fst (filter (fun x => negb (clean true (snd x) && clean false (snd x))) runs)."]
    bad, _ = C.coq_eval_sharded("cases_%s_modes" % name, PRE, rows, "Definition runs : list (N * list tok) := [%s].", tail, "bad", shard=300, timeout=600)
    return set(bad)


def skeleton_obligations(res, prop_mods, names):
    """K1 + T for a skeleton property.  Returns (ok, broken, cex) where cex maps obligation -> model path when the
    build broke (the search of DESIGN section 4, run inside the model)."""
    ok, broken = C.proof_obligations(res, prop_mods, extra_targets=["theories/Spec/LifeSpec.vo", "theories/Proof/SkelCert.vo", "theories/Model/SkelTie.vo", "theories/Model/VT.vo"])
    cex = {}
    if not ok:
        try:
            g = guards_report()
            res.notes.append({"guards_from_source": {k: v for k, v in g.items() if not v}})
            cex, dt = model_cex(names)
            res.notes.append({"model_counterexamples": {k: (v[:1500] if v else None) for k, v in cex.items()}, "search_s": round(dt, 1)})
        except C.Fail as e:
            res.notes.append({"model_search_failed": str(e)[:500]})
    return ok, broken, cex


# ------------------------------------------------------------------ trace inclusion: real run -> skeleton

def observations(sc, r):
    """the callbacks the Run goroutine of a real program entered, in order, as Coq `obs` terms (Proof/SkelTrace.v)"""
    filtered = bool((sc.get("opts") or {}).get("filter") is not None)
    evs = sorted([e for e in r["events"] if e["ev"] in ("InitBegin", "ViewBegin", "FilterBegin", "UpdateBegin", "ExecRunBegin")], key=lambda e: e["c"])
    out = []
    for e in evs:
        k = e["ev"]
        if k == "InitBegin":
            out.append("OInit")
        elif k == "ViewBegin":
            out.append("OView0" if e.get("k") == 1 else "OView")
        elif k == "UpdateBegin":
            out.append("OUpdate")
        elif k == "ExecRunBegin":
            out.append("OExecRun")
        elif k == "FilterBegin" and filtered:
            key = e.get("key", "")
            out.append("OFilter " + {"b:quit": "MkQuit", "b:interrupt": "MkInt", "b:batch": "MkBatch", "b:exec": "MkExec"}.get(key, "MkUser"))
    if r["run_returned"]:
        out.append("OReturned " + P.err_coq(r))
    return filtered, out


def trace_inclusion(res, name, triples, limit):
    """triples: [(scenario, meta, result)].  For up to `limit` runs (spread over the list) the observed callback sequence must
    be a path of the skeleton under the guards extracted from the current source (Proof/SkelTrace.accepts, soundness:
    accepts_sound).  Returns the list of (scenario, meta, result, index of the first observation the model cannot follow)."""
    usable = [(sc, m, r) for sc, m, r in triples if not P.machinery_problem(r) and not r.get("crashed") and r["run_returned"]
              and sc.get("input", {}).get("kind", "none") in ("none", "pipe", "reader") and not sc.get("out_fault")]
    step = max(1, len(usable) // max(1, limit))
    chosen = usable[::step][:limit]
    rows = []
    for i, (sc, m, r) in enumerate(chosen):
        filtered, obs = observations(sc, r)
        o = sc.get("opts") or {}
        sigh = o.get("nosighandler") is False
        rows.append("(%d%%nat, %s, %s, %s, [%s])" % (i, "true" if filtered else "false", "true" if sigh else "false",
                                                    "true" if o.get("nosignals") else "false", "; ".join(obs)))
    if not rows:
        return []
    rows_def = "Definition rows : list (nat * bool * bool * bool * list obs) := [%s]."
    body = ["Definition G := Eval vm_compute in guards_of_gen.",
            "Definition stuck (x : nat * bool * bool * bool * list obs) : nat := let '(i, f, sh, ig, os) := x in first_stuck G f (inits_for sh ig) os 0.",
            "Definition bad := flat_map (fun x => let '(i, f, sh, ig, os) := x in let k := stuck x in if (k =? List.length os)%nat then [] else [i; k]) rows."]
    pre = PRE.replace("Proof.SkelCert", "Proof.SkelCert Proof.SkelTrace") + "From Coq Require Import Arith.\n"
    flat, dt = C.coq_eval_sharded("cases_%s_trace" % name, pre, rows, rows_def, body, "bad", shard=2, timeout=1500, parallel=8)
    bad = [(chosen[flat[j]] + (flat[j + 1],)) for j in range(0, len(flat), 2)]
    res.oblige("K2 (code within model): the callback sequences of %d real runs are paths of the skeleton (Proof/SkelTrace.accepts over the extracted guards)" % len(chosen),
               not bad, [(m.get("cause"), m.get("point"), observations(sc, r)[1][:k + 1]) for sc, m, r, k in bad[:2]])
    res.coverage["trace_inclusion"] = {"runs": len(chosen), "observations": sum(len(observations(sc, r)[1]) for sc, m, r in chosen), "coq_seconds": round(dt, 1)}
    return bad
