#!/usr/bin/env python3
"""Regenerates MANIFEST.json from the table below (run from /verif)."""
import json, os, subprocess

CLAIMED = {
 "C06": dict(design="5.2/C06", technique="Coq proof over the renderer + terminal (tape) model; differential harness on the real renderer's token stream; screen oracle evaluated in Coq on the real output",
             text="The renderer model (flush/write/alt/clear/print/resize/stop mirrored from standard_renderer.go) equals the real renderer token for token on generated histories; the real token stream is applied to the Coq terminal model and the Spec (view occupies exactly the right rows, nothing stale below, rows above untouched, cursor at column 0; alt screen: first n rows, rest blank) is evaluated after every render for both cursor-visibility conventions. F3 (shrinking frame erased its last line) was found this way and repaired. See evidence theorems list for the flush/Sync theorems proved in this revision.",
             note="Trusted: Coq kernel + vm_compute; harness + tokenizer; the VT model is the stated xterm subset, no real terminal in the loop; width-1 printable glyphs only in the theorems (wide runes / embedded SGR outside); inline resizes and the deprecated scroll-area API not claimed. No axioms."),
 "C07": dict(design="5.2/C07", technique="Coq proof over the renderer + terminal model (stop = flush + erase-line); differential harness; final-screen oracle evaluated in Coq on the real output",
             text="Histories with any placement of flushes (ticker timing), 0..5 coalesced intermediate views, ending in Write v_f; Stop: the real token stream applied to the Coq terminal leaves every newline-terminated line of the final view in place, the row after them blank with the cursor at column 0, rows above untouched (Spec.shows_final_inline); write replaces the pending frame (theorem) so no later view is replaced by an earlier one. The ticker/stop handshake of Run is part of the runtime skeleton (C04).",
             note="Trusted: as C06. Alt-screen programs leave the final view in the alt buffer; stated for inline. No axioms."),
 "C08": dict(design="5.1/C08", technique="Coq proof over the decoder model + kernel-checked table facts; key table regenerated from key.go and compared with the frozen documented table (tie); differential harness with Spec evaluated on real output",
             text="Tie_KeyTable: the table extracted from key.go on every run equals the frozen documented table; table facts (distinct, non-empty keys = documented keys) by computation; the decode(encode evs) = expect evs statement is evaluated in Coq on the real decoder's output for every table entry (+alt) x successor classes, every control byte in text, boundary scalars and random well-formed streams; the model equals the implementation on all of them and on malformed streams.",
             note="Trusted: Coq kernel + vm_compute; goextract; harness; frozen RefTable.v as the documentation-side oracle. Stream theorem C08_stream: see evidence theorems list for what is proved in this revision. No axioms."),
 "C09": dict(design="5.1/C09", technique="Coq proof (induction over the reader's loops on all byte strings and read scripts) + differential harness on hostile inputs + accounting oracle over the real detectOneMsg",
             text="C09_detect_total: for every non-empty buffer detectOneMsg's model returns a width in 1..len or asks for more for a stated reason, never panics; C09_reader_accounts: for every script of reads and cancellation point the emitted runs are non-empty, adjacent, ordered and runs++leftover = input, the fuel (= buffer length) always suffices; C09_short_read_flushes, C09_held_only_if_incomplete, C09_cancel_prompt, C09_error_prompt. Unbounded over bytes and chunkings.",
             note="Trusted: Coq kernel; goextract (constants, regexes, markers); harness. Go's regexp/utf8/strconv mirrored by model scanners validated by K2. cancelreader's own latency is exercised, not proved. No axioms."),
 "C10": dict(design="5.1/C10", technique="Coq proof over the decoder/reader model + differential harness with pastes cut at arbitrary positions; Spec evaluated on real output",
             text="Paste payloads with escape sequences, mouse reports, control bytes, invalid UTF-8 and partial end markers, lengths up to 3 buffers, cut anywhere after the start marker (incl. inside the end marker, 1-byte reads, exact-256 reads), with neighbours and back-to-back pastes: real output = one paste message with the valid scalars (Spec in Coq) and = model.",
             note="Trusted: as C09. See evidence theorems list for the paste lemmas proved in this revision. No axioms."),
 "C11": dict(design="5.1/C11", technique="Coq proof (mod-256 lift + kernel-checked 256-code sweep, itoa/atoi round trip, SGR scanner) + differential harness on detectOneMsg/readAnsiInputs",
             text="C11_sgr / C11_x10: for every code, every coordinate and any following bytes the model of detectOneMsg returns the xterm-specified mouse message and consumes exactly the report's bytes; unbounded in code and coordinates. Constants/bit masks/regex are regenerated from mouse.go, key.go on every run (tie); the model is compared with the real decoder on all 256x2 SGR and 224 X10 codes, huge numbers, embedded reports and malformed near-misses, and the Spec is evaluated on the real output.",
             note="Trusted: Coq kernel + vm_compute; goextract; harness; Go regexp/strconv mirrored by match_sgr/atoi_sat (validated by K2). Spec fixes the one case xterm never emits (SGR low bits 3) as release of no button. Deprecated MouseEvent.Type is compared with the model only, not specified. No axioms."),
 "C14": dict(design="5.2/C14", technique="Coq proof over the renderer + terminal tape model (rows above the view are a list prefix); differential harness; rows-above oracle evaluated in Coq on the real output",
             text="Print-heavy histories (single/multi-line, widths 0..2W+3, views of every height so that printing scrolls, prints during alt screen): after every render the rows above the view equal the initial rows followed by the wrapped printed lines, in order (append-only prefix of the tape), on the real renderer's token stream; model = implementation token for token. F10 (wrapped printed line kept stale cells) found and repaired.",
             note="Trusted: as C06. No axioms."),
 "C15": dict(design="5.1/C15", technique="Coq proof over the reader model + boundary-sweep differential harness; Spec evaluated on real output",
             text="Every event kind at every offset around the 256-byte boundary and random long streams, read in 256-byte reads: the real reader's messages equal the one-shot meaning of the events (Spec in Coq) and the model's. F5 (events split at the boundary) was found by this check on the pinned tree and repaired.",
             note="Trusted: as C09. See evidence theorems list for the chunk-invariance theorems proved in this revision. No axioms."),
 "C19": dict(design="5.2/C19", technique="Coq proofs (silence, write never emits, fps clamp over all integers) + differential harness with byte-cost oracle and real newRenderer frame intervals",
             text="Theorems: re-rendering the displayed view emits nothing; write/resize/repaint/print never emit (output only at ticks, stop and explicit commands); frame interval = 1s/clamp(fps) for every integer fps with clamp in 1..120 and default 60. Real output: identical view => 0 bytes; re-render cost within the Spec bound for the changed lines; VerifFramerate for fps in -5..300 and extremes equals model and Spec.",
             note="Trusted: as C06; time.Ticker's period (Go runtime) is assumed; the cost bound is evaluated by the orchestrator with the closed formula of Spec/Economy.v. No axioms."),
 "C20": dict(design="5.3/C20", technique="Coq proof over the translated delay expression (goextract -> gen/TimerExpr.v) + real-timer correspondence",
             text="Theorems over the delay expression translated from commands.go on every run: 0 < w <= d, (n+w) mod d = 0, least such multiple; not-early and message = fn(firing time) under the stated Go timer contract (hypothesis, hence _partial). Real Tick/Every runs are checked against the Spec predicates and a control timer.",
             note="Trusted: Coq kernel + vm; goextract translator; Go runtime timers/clock (hypothesis runtime_timer_ok); 100us clock-reading tolerance in the real-run check. No axioms."),
}

SKEL_NOTE = "Trusted: Coq kernel + vm_compute (reflection: the reachable set, ~72k control states, and the rank table are certificates accepted only by kernel-checked closure/rank checks); goextract (channel-operation / call-order / dispatch inventories regenerated from /repo every run); the skeleton Model/Skel.v is a hand-written mirror of tea.go/tty.go/standard_renderer.go control flow whose guards are COMPUTED from those inventories; Go harness (real Programs, pause points, watchdog). Assumed: Go select/channel semantics, an enabled runtime thread eventually runs, callbacks in progress return. Outside: Kill racing the first lines of Run, unrecovered panics, job-control suspend. No axioms."
CLAIMED.update({
 "C04": dict(design="5.3/C04", technique="Coq proof by kernel-checked inductive-invariant closure + rank certificate over the control skeleton (guards computed from the regenerated channel-operation inventory); real Programs driven through the cause x point x pending-work matrix under a watchdog, outcome Spec evaluated in Coq",
             text="C04_bounded / C04_no_dead_end / C04_struck_stable: in every state reachable under any schedule and environment, once a cause has struck every path of runtime steps and callback returns is bounded by a kernel-checked rank (<= 60, plus 2 per further command of a batch in dispatch) and can only stop where Run has returned; C04_error_ok: the error class at return is the one the exit decision demands. Guards come from the source on every run (an unguarded channel operation breaks the closure proof and the model-level search prints the shortest deadlock path). Real runs: every cause (quit msg, Quit(), interrupt, Kill, ctx, read error, panic in callback / command, SIGINT, SIGTERM) x point (idle, in Init/Update/View/filter, batch dispatch, command hand-off, inside exec) x pending work; two-cause races; EOF alone. F1, F8, F9 were found and repaired.",
             note=SKEL_NOTE),
 "C05": dict(design="5.2/C05", technique="Coq proof: mode algebra over the renderer+terminal model interpreted from the GENERATED restoreTerminalState/Run call lists (restore resets every mode from any tracked state, both cursor-visibility conventions) composed with the skeleton closure (restoreTerminalState is the Run thread's last mode action on every path to a return); real Programs: final modes evaluated in Coq on the real output",
             text="C05_restored_at_every_return (skeleton, every cause x every program point x every schedule), C05_restore_resets / C05_quit_resets (any options, any mode-command history). Real runs: random option subsets x mode histories (incl. exec) x causes x points (incl. inside the exec'd command), all 32 option subsets, start-up failure after initialisation: the mode tokens actually written leave the Coq terminal in its default modes. F4 found and repaired.",
             note=SKEL_NOTE + " termios is exercised on a pty by C18's harness, not proved."),
 "C13": dict(design="5.3/C13", technique="Coq proof by the same closure over the control skeleton (context cancelled and finished closed at every return, stable afterwards) + tie on the API entry points' channel operations; real Programs with callers blocked in / arriving after the end under a watchdog, Spec evaluated in Coq",
             text="C13_released_at_return, C13_release_is_stable over every reachable state; C13_tie: Send selects on ctx, Quit/Println/Printf go through Send with no channel operation of their own, Wait is one receive from a channel made once in NewProgram and only ever closed, p.msgs is a rendezvous channel. Real runs: Wait x3, Send x2, Println x2, Printf, Quit blocked in the call when each cause strikes at each point, a second wave after the end, Wait entered before Run, start-up failures, Send before start. F2 found and repaired.",
             note=SKEL_NOTE + " The number of callers is abstracted by Go's close/cancel semantics."),
})

CLAIMED.update({
 "C12": dict(design="5.2/C12", technique="Coq proof by induction over command histories on the L0 event-loop + renderer + terminal model interpreted from the GENERATED dispatch and start-up call lists (tracker invariant, both cursor-visibility conventions); real Programs: Spec.Modes evaluated in Coq on the mode tokens sampled at every Update, full token stream for main-screen preservation",
             text="C12_modes_follow_commands / C12_modes_tracked: for every option subset and every finite history of mode commands the terminal's modes equal fold apply cmds (apply_opts o) for both cursor-visibility conventions (any user program); C12_main_untouched / C12_alt_run_main_untouched: a program that starts in the alt screen and never leaves it leaves the main buffer identical. Real runs: all 32 option subsets x random histories (0..30, revisits), modes read from the real output inside Update after each command; K2: the model's mode-token stream equals the real one.",
             note="Trusted: Coq kernel + vm_compute; goextract (dispatch table, start-up list); Model/VT.v = stated xterm subset; harness. Window title and ANSI compressor outside. No axioms."),
 "C16": dict(design="5.3/C16", technique="Coq proof (simulation by induction over message histories on the L0 event-loop model interpreted from the GENERATED dispatch table) + tie on the statement order of eventLoop; real Programs with random per-key filter policies: Spec.FilterSpec evaluated in Coq on the real callback log, model = implementation on five observables",
             text="C16_consulted_once, C16_simulation (the run with a filter is, on model, renderer state, mode output, Update log, spawned commands, side effects and exit decision, the run without filter over the messages the filter returned: nil leaves no trace, a replacement behaves as if sent), C16_at_most_once: for ANY program, filter and history; C16_tie: filter and nil check precede the type switch, handleMessages/Update/hand-off/write follow it. Real runs: random histories over every message kind x drop/replace(any kind)/keep policies; suppressed print lines must not reach the screen.",
             note="Trusted: Coq kernel; goextract (dispatch table + statement order); harness. One sender (receive order = send order; the concurrent half is C01). No axioms."),
})

CONC_NOTE = "Trusted: Coq kernel; the L1 model Model/Conc.v (hand-written interleaving transition system of eventLoop / Send / handleCommands / the sequenceMsg goroutine with rendezvous channels and a ghost event log) tied to the source by goextract facts (p.msgs, cmds unbuffered; p.msgs received only in eventLoop; statement order of the loop; bodies of Send, handleCommands, Batch, Sequence and of the BatchMsg / sequenceMsg cases compared with the shapes the model mirrors); Go harness (recording model, goroutine ids, logical clock). Assumed: Go channel/select semantics. The theorems quantify over ALL programs (model type, Update, command results), sender scripts and schedules (lists of labels, disabled labels skipped). No axioms."
CLAIMED.update({
 "C01": dict(design="5.3/C01", technique="Coq proof by invariants over all schedules of the L1 concurrent transition system (induction over the schedule, one preservation case per label); K1 ties on channel buffering / receive sites / loop statement order; real Programs with up to 32 concurrent senders: Spec.ConcSpec predicates evaluated in Coq on the real logs",
             text="C01_model_threaded / C01_fold (the model is the fold of Update over the messages passed to it; nothing else changes it), C01_updates_are_receipts (Update gets exactly the updatable messages received, each right after its receipt, none invented or repeated), C01_lossless(_general) (received = updated + the one in flight), C01_per_sender (taken ++ still-held = script, per sender), C01_single_loop_partial. Real runs: 1..32 senders x up to 20 messages, slow/yielding Update, command traffic, filter, GOMAXPROCS 1..16, complete / quit / Kill midway: exactly-once, per-sender order, no overlap and one goroutine for Init/Update/View/filter, model threading, Run returns the last model.",
             note=CONC_NOTE + " Mutual exclusion of callbacks is structural in the model (one loop thread): a Go data race cannot be exhibited by the theorem; that half is carried by goroutine ids and interval overlap on real runs (named _partial)."),
 "C02": dict(design="5.3/C02", technique="Coq proof by counting invariants over all schedules of the L1 model (owed = handed + pending; per-goroutine delivery automaton) and a constructive non-interference lemma; real Programs with random command trees incl. blocking and never-returning commands and scratch-buffer models: Spec.ConcSpec predicates evaluated in Coq on the real logs",
             text="C02_handed_are_owed, C02_all_handed_when_idle (every non-nil command returned by Init/Update or contained in a received BatchMsg at any depth is handed over exactly once by the time the loop is back at its select), C02_started_once (one goroutine per hand-over, never the loop), C02_results_once (result delivered at most once, after the command returned, and it is that command's result), C02_nil_never_reaches_update, C02_noninterference (from ANY state the loop alone reaches its select in <= 4 + batch length own steps and serves a waiting sender: no command step is needed).",
             note=CONC_NOTE),
 "C03": dict(design="5.3/C03", technique="Coq proof: a walk automaton over the ghost log is an invariant of every sequence goroutine over all schedules of the L1 model; real Programs with random sequences under traffic and with the loop held busy: sequences_ok evaluated in Coq on the projected log + interval-bracketed receipt check",
             text="C03_sequences_ok (elements strictly in order, nil entries skipped, the next element starts only after the previous element's message - every message of its batch - was taken by the loop), C03_next_after_receipt, C03_update_order, C03_nil_does_not_stall, C03_group_done_steps. Real runs: random sequences of plain commands / batches / nil entries / nil results with random durations and unrelated traffic, and variants where the loop is held inside an unrelated Update while an element finishes.",
             note=CONC_NOTE + " On real runs the instant of receipt is not observable; it is bracketed by the loop goroutine's callback intervals."),
})

CLAIMED.update({
 "C17": dict(design="5.3/C17", technique="Coq proof: skeleton closure (quiet during exec, ticker/reader resumed) + mode algebra over the GENERATED ReleaseTerminal/RestoreTerminal call lists (release_then_restore, both cursor conventions); real Programs with a fake ExecCommand: output/input/modes/callback observed, Spec.Modes evaluated in Coq",
             text="C17_quiet_during_exec (in every reachable state where the external command runs: ticker stopped by the handshake, read loop not reading, signals ignored, terminal restored), C17_resumes_after_exec, C17_release_then_restore (default modes at hand-over; afterwards alt screen / paste / focus exactly as before, for every mode state and every remembered triple). Real runs: random options x mode histories x 1..5 consecutive execs (success/failure, with/without callback) x pipe/reader/no input with bytes arriving during and after: nothing written while the command runs, its stdin gets the bytes that arrive meanwhile, callback once with the command's error, input read again, view repainted, modes handed over and back. F12 found and repaired.",
             note=SKEL_NOTE + " cancelreader's cancellation latency (<= 500 ms) is exercised, not proved; a plain io.Reader cannot be cancelled by that library (outside the property's file-descriptor clause); mouse modes are deliberately not re-enabled."),
 "C18": dict(design="5.3/C18", technique="Coq proof: skeleton closure (signal -> message map, ignore gating incl. WithoutSignals across release/restore, no handler without consent, error class and restore at return) + renderer size adoption; OS half exercised: one child process per scenario on a pseudo-terminal (real SIGINT/SIGTERM/SIGWINCH, TIOCSWINSZ, termios)",
             text="C18_signal_forwarded / C18_signal_received / C18_error (SIGINT => interrupt message => ErrInterrupted, SIGTERM => quit => nil, terminal restored), C18_ignored, C18_without_signals (never forwarded, also after the terminal was released and restored), C18_no_handler, C18_size_adopted, C18_size_reaches_update. Real runs: signal x option x phase (idle, inside Update, released, after an Exec, ignored-then-again) and 1..3 resizes of a pty (spaced, burst while Update is busy, while released, WindowSize command): true sizes reported, last reported = true size, renderer clips to it, termios restored. F8 (shared with C04) and F11 found and repaired.",
             note=SKEL_NOTE + " Signal delivery, signal.Notify, TIOCGWINSZ and termios are the OS and the Go runtime: exercised through the pty, not proved (C18 model half only)."),
})

def main():
    here = os.path.dirname(os.path.dirname(os.path.abspath(__file__)))
    props = [json.loads(l) for l in open(os.path.join(here, "properties.jsonl"))]
    hooks_commits = subprocess.run(["git", "-C", "/repo", "log", "--format=%H", "--grep=^verif:"], capture_output=True, text=True).stdout.split()
    checks, na = [], []
    for p in props:
        i = p["id"]
        if i in CLAIMED:
            c = CLAIMED[i]
            checks.append({
                "property_id": i,
                "quick_cmd": "./check %s --tier quick" % i,
                "thorough_cmd": "./check %s --tier thorough" % i,
                "evidence_file": "/verif/evidence/%s.json" % i,
                "replay_cmd_template": "./check %s --replay {path}" % i,
                "engine": "coq-proof+correspondence",
                "level_claimed": {"category": "proof", "text": c["text"], "design_ref": c["design"]},
                "level_note": c["note"],
                "technique": c["technique"],
            })
        else:
            na.append({"property_id": i, "reason": "not yet covered by a registered check in this revision (work in progress; planned per DESIGN.md section 5)"})
    m = {
        "version": 1,
        "setup_cmd": "./setup.sh",
        "hooks": {
            "guard": "verif (Go build tag)",
            "enable": "go build -tags verif (the harness module replaces github.com/charmbracelet/bubbletea with /repo)",
            "baseline_off_cmd": "cd /repo && GOFLAGS=-mod=mod GOPROXY=off GOSUMDB=off go test -json -vet=off -count=1 -timeout 25m ./... ; cd /repo/tutorials && GOFLAGS=-mod=mod GOPROXY=off GOSUMDB=off go test -json -vet=off -count=1 -timeout 25m ./...",
            "source_commits": hooks_commits,
            "add_only": True,
        },
        "engines": [{"name": "coq-proof+correspondence", "path": "/verif/check",
                     "serves_properties": sorted(CLAIMED),
                     "kind_free_text": "Coq 8.16.1 theorems over models tied to /repo by the goextract translator (coq/gen regenerated every run) and a Go differential harness (build tag verif); Spec predicates evaluated in Coq on real outputs"}],
        "checks": checks,
        "not_applicable": na,
        "notes": "See DESIGN.md. known_findings.json lists fixed/open findings.",
    }
    with open(os.path.join(here, "MANIFEST.json"), "w") as f:
        json.dump(m, f, indent=1)
    print("claimed:", len(checks), "not_applicable:", len(na))

if __name__ == "__main__":
    main()
