#!/usr/bin/env python3
"""Regenerates MANIFEST.json from the table below (run from /verif)."""
import json, os, subprocess

CLAIMED = {
 "C11": dict(design="5.1/C11", technique="Coq proof (mod-256 lift + kernel-checked 256-code sweep, itoa/atoi round trip, SGR scanner) + differential harness on detectOneMsg/readAnsiInputs",
             text="C11_sgr / C11_x10: for every code, every coordinate and any following bytes the model of detectOneMsg returns the xterm-specified mouse message and consumes exactly the report's bytes; unbounded in code and coordinates. Constants/bit masks/regex are regenerated from mouse.go, key.go on every run (tie); the model is compared with the real decoder on all 256x2 SGR and 224 X10 codes, huge numbers, embedded reports and malformed near-misses, and the Spec is evaluated on the real output.",
             note="Trusted: Coq kernel + vm_compute; goextract; harness; Go regexp/strconv mirrored by match_sgr/atoi_sat (validated by K2). Spec fixes the one case xterm never emits (SGR low bits 3) as release of no button. Deprecated MouseEvent.Type is compared with the model only, not specified. No axioms."),
 "C20": dict(design="5.3/C20", technique="Coq proof over the translated delay expression (goextract -> gen/TimerExpr.v) + real-timer correspondence",
             text="Theorems over the delay expression translated from commands.go on every run: 0 < w <= d, (n+w) mod d = 0, least such multiple; not-early and message = fn(firing time) under the stated Go timer contract (hypothesis, hence _partial). Real Tick/Every runs are checked against the Spec predicates and a control timer.",
             note="Trusted: Coq kernel + vm; goextract translator; Go runtime timers/clock (hypothesis runtime_timer_ok); 100us clock-reading tolerance in the real-run check. No axioms."),
}

def main():
    here = os.path.dirname(os.path.dirname(os.path.abspath(__file__)))
    props = [json.loads(l) for l in open(os.path.join(here, "properties.jsonl"))]
    hooks_commits = subprocess.run(["git", "-C", "/repo", "log", "--format=%H", "--grep=^verif:"], capture_output=True, text=True).stdout.split()
    checks, na = [], []
    for p in props:
        i = p["id"]
        if i in CLAIMED:
            c = CLAIMED[i]
            checks.append({
                "property_id": i,
                "quick_cmd": "./check %s --tier quick" % i,
                "thorough_cmd": "./check %s --tier thorough" % i,
                "evidence_file": "/verif/evidence/%s.json" % i,
                "replay_cmd_template": "./check %s --replay {path}" % i,
                "engine": "coq-proof+correspondence",
                "level_claimed": {"category": "proof", "text": c["text"], "design_ref": c["design"]},
                "level_note": c["note"],
                "technique": c["technique"],
            })
        else:
            na.append({"property_id": i, "reason": "not yet covered by a registered check in this revision (work in progress; planned per DESIGN.md section 5)"})
    m = {
        "version": 1,
        "setup_cmd": "./setup.sh",
        "hooks": {
            "guard": "verif (Go build tag)",
            "enable": "go build -tags verif (the harness module replaces github.com/charmbracelet/bubbletea with /repo)",
            "baseline_off_cmd": "cd /repo && GOFLAGS=-mod=mod GOPROXY=off GOSUMDB=off go test -json -vet=off -count=1 -timeout 25m ./... ; cd /repo/tutorials && GOFLAGS=-mod=mod GOPROXY=off GOSUMDB=off go test -json -vet=off -count=1 -timeout 25m ./...",
            "source_commits": hooks_commits,
            "add_only": True,
        },
        "engines": [{"name": "coq-proof+correspondence", "path": "/verif/check",
                     "serves_properties": sorted(CLAIMED),
                     "kind_free_text": "Coq 8.16.1 theorems over models tied to /repo by the goextract translator (coq/gen regenerated every run) and a Go differential harness (build tag verif); Spec predicates evaluated in Coq on real outputs"}],
        "checks": checks,
        "not_applicable": na,
        "notes": "See DESIGN.md. known_findings.json lists fixed/open findings.",
    }
    with open(os.path.join(here, "MANIFEST.json"), "w") as f:
        json.dump(m, f, indent=1)
    print("claimed:", len(checks), "not_applicable:", len(na))

if __name__ == "__main__":
    main()
