"""Program family (C01-C05, C12, C13, C16-C18): scenarios for the Go harness
(`harness program`), which runs REAL tea.Programs with a recording model,
scripted senders, pause points and a watchdog; observation helpers; the Coq
evaluation of the Spec predicates on the real outcomes."""
import json
import os
import re

from . import common as C


# ------------------------------------------------------------------ running

def run_scenarios(name, scs, timeout=1500):
    os.makedirs(C.CASES, exist_ok=True)
    pin = os.path.join(C.CASES, name + ".in.jsonl")
    pout = os.path.join(C.CASES, name + ".out.jsonl")
    with open(pin, "w") as f:
        for s in scs:
            f.write(json.dumps(s) + "\n")
    if os.path.exists(pout):
        os.remove(pout)
    rc, out, dt = C.run_harness(["program", "-out", pout, pin], timeout=timeout)
    res = C.read_jsonl(pout) if os.path.exists(pout) else []
    if rc != 0 and len(res) < len(scs):
        # the harness process itself went down (a fatal runtime error or an unrecovered panic in a goroutine of the program
        # under test takes every scenario of the process with it): run the scenarios that have no result yet one per
        # child process, so that the one that kills its process is identified and reported as crashed
        rest = [dict(s, isolate=True) for s in scs[len(res):]]
        pin2, pout2 = pin + ".rest", pout + ".rest"
        with open(pin2, "w") as f:
            for s in rest:
                f.write(json.dumps(s) + "\n")
        if os.path.exists(pout2):
            os.remove(pout2)
        rc2, out2, dt2 = C.run_harness(["program", "-out", pout2, pin2], timeout=timeout)
        res2 = C.read_jsonl(pout2) if os.path.exists(pout2) else []
        if rc2 == 0 and len(res2) == len(rest):
            with open(pout, "a") as f:
                for r in res2:
                    f.write(json.dumps(r) + "\n")
            return res + res2, dt + dt2
        raise C.Fail("harness program failed (rc=%s, %d/%d results) and again with one child process per remaining scenario (rc=%s): %s" %
                     (rc, len(res), len(scs), rc2, (out + out2)[-1500:]))
    if rc != 0 or len(res) != len(scs):
        raise C.Fail("harness program failed (rc=%s, %d/%d results): %s" % (rc, len(res), len(scs), out[-1500:]))
    return res, dt


# ------------------------------------------------------------------ scenario building blocks

def U(n):
    return {"u": n}


def B(kind, **kw):
    d = {"b": kind}
    d.update(kw)
    return d


def cmd(i, ret=None, block=None, panic=False, sleep_us=0):
    d = {"id": i}
    if ret is not None:
        d["ret"] = ret
    if block:
        d["block"] = block
    if panic:
        d["panic"] = True
    if sleep_us:
        d["sleep_us"] = sleep_us
    return d


def batch(*cs):
    return {"id": 0, "batch": list(cs)}


def seq(*cs):
    return {"id": 0, "seq": list(cs)}


W = lambda what: {"wait": what}          # noqa: E731
DO = lambda what, **kw: dict({"do": what}, **kw)   # noqa: E731


def scenario(i, script, opts=None, inp=None, **kw):
    s = {"id": i, "opts": opts or {}, "input": inp or {"kind": "none"}, "view": kw.pop("view", {}), "script": script,
         "watchdog_ms": kw.pop("watchdog_ms", 3000)}
    s.update(kw)
    return s


# ------------------------------------------------------------------ observations

MODE_RE = re.compile(rb'\x1b\[\?(\d+)([hl])')


def mode_tokens(out_bytes):
    """mode-token projection of the output: [(mode number, on?)]"""
    return [(int(m.group(1)), m.group(2) == b'h') for m in MODE_RE.finditer(bytes(out_bytes))]


def final_modes(toks, shared=True):
    """xterm-like tracker over mode tokens (python mirror of VT.set_mode, used for reporting; the verdict comes from Coq)"""
    st = {"alt": False, "vis_main": True, "vis_alt": True, 1002: False, 1003: False, 1006: False, 2004: False, 1004: False}
    for m, on in toks:
        if m == 25:
            if shared or not st["alt"]:
                st["vis_main"] = on
            if shared or st["alt"]:
                st["vis_alt"] = on
        elif m == 1049:
            st["alt"] = on
        elif m in st:
            st[m] = on
    vis = st["vis_alt"] if st["alt"] else st["vis_main"]
    return {"alt": st["alt"], "hidden": not vis, "cell": st[1002], "all": st[1003], "sgr": st[1006], "paste": st[2004], "focus": st[1004]}


DEFAULT_MODES = {"alt": False, "hidden": False, "cell": False, "all": False, "sgr": False, "paste": False, "focus": False}


def coq_mode_toks(toks):
    return "[" + "; ".join(("TSet %d" if on else "TReset %d") % m for m, on in toks) + "]"


ERR_COQ = {"nil": "ENil", "interrupted": "EInt", "killed": "EKilled"}


def err_coq(r):
    e = r.get("run_err", "")
    if e in ERR_COQ:
        return ERR_COQ[e]
    if e.startswith("other:"):
        txt = r.get("run_err_text", "")
        if "scenario input failure" in txt or "input failure" in txt:
            return "EReadErr"
        return "EOther"
    return "EOther"


CAUSE_COQ = {"quit": "CQuit", "quitapi": "CQuit", "interrupt": "CInterrupt", "kill": "CKill", "cancel": "CCtx", "panic": "CPanic",
             "readerr": "CReadErr", "sigint": "CSigInt", "sigterm": "CSigTerm", "startfail": "CStartFail", "cmdpanic": "CPanic", "seqpanic": "CPanic"}


def events_of(r, *kinds):
    return [e for e in r["events"] if e["ev"] in kinds]


def summarize(r):
    """short, replay-friendly description of a result"""
    return {"id": r["id"], "run_returned": r["run_returned"], "run_err": r["run_err"], "run_err_text": r.get("run_err_text", "")[:200],
            "api": r.get("api"), "senders_done": r.get("senders_done"), "script_timeout": r.get("script_timeout"),
            "errors": r.get("errors"), "crashed": r.get("crashed"), "crash_text": (r.get("crash_text") or "")[:600],
            "stuck": (r.get("stuck") or "")[:3000], "events_tail": [(e["ev"], e.get("key", "")) for e in r["events"][-25:]]}


def machinery_problem(r):
    """a result the harness itself flags as unusable (not a verdict about bubbletea)"""
    if r.get("crashed"):
        return None  # a crash of the child IS an observation (the program took the process down)
    errs = [e for e in (r.get("errors") or []) if "controller exceeded" not in e]
    return errs or None


# ------------------------------------------------------------------ the cause x point x pending-work matrix (C04, C05, C13)

POINTS = ["idle", "update", "view", "filter", "filterdrop", "batch", "cmdsend", "init", "exec"]
EXTRA_POINTS = ["before-run"]
CAUSES = ["quit", "quitapi", "interrupt", "kill", "cancel", "readerr", "panic", "cmdpanic", "seqpanic"]
PENDING = ["none", "senders", "forever", "input", "all"]


def lifecycle_scenario(i, cause, point, pending, opts=None, after_api=False, before_api=False, modes_history=None, isolate=False,
                       waits_before_run=0, second=None, inp_override=None, hold_us=20000):
    """One Program: get to `point` (a paused callback or idle), let `cause` strike there with `pending` work in
    flight, release the callback, expect Run to return.  Returns (scenario, meta) or None when the combination
    does not exist (e.g. a panic cause needs a callback to panic in)."""
    o = dict(opts or {})
    sc = {"ctx": cause == "cancel" or second == "cancel"}
    inp = {"kind": "none"}
    if cause == "readerr":
        inp = {"kind": "reader", "end": "fail"}
    elif pending in ("input", "all"):
        inp = {"kind": "reader", "end": "hold", "bytes": [97, 98, 99] if point == "idle" else []}
    if inp_override is not None:
        inp = inp_override
    upd = {}
    view = {}
    script = []
    label = None
    causes = [cause]
    if point == "before-run":
        # the supplied context is already cancelled - or Kill has already been called - when Run is called
        if cause not in ("cancel", "kill"):
            return None
        script = []
        if waits_before_run:
            script.append(DO("api", kind="wait", n=waits_before_run))
        if before_api:
            script += [DO("api", kind="wait", n=2), DO("api", kind="send", n=2), DO("api", kind="println", n=1)]
        script += [DO("cancel") if cause == "cancel" else DO("kill"), DO("sleep", us=2000), DO("run"), W("returned")]
        if after_api or before_api:
            for k, n in (("wait", 2), ("send", 2), ("println", 1), ("printf", 1), ("quit", 1)):
                script.append(DO("api", kind=k, n=n))
            script.append(W("api"))
        s = scenario(i, script, opts=o, inp=inp, view={}, ctx=True)
        s["parallel_ok"] = True
        return s, {"cause": cause, "point": point, "pending": "none", "causes": causes, "before_api": before_api, "after_api": after_api,
                   "opts": {k: v for k, v in o.items() if k != "filter"}, "modes_history": [], "waits_before_run": waits_before_run}
    if waits_before_run:
        script += [DO("api", kind="wait", n=waits_before_run), DO("run")]
    script.append(W("started"))
    # pending work
    if point == "init":
        modes_history = None    # nothing can be processed before Init has returned
    if pending == "flood":
        # more never-returning commands in flight than any plausible bound on concurrently running commands
        sc["init"] = batch(*[cmd(2000 + k, block="forever") for k in range(300)])
    if pending in ("forever", "all"):
        # (a batch from Init would arrive as a BatchMsg and collide with the pause of point "batch")
        sc["init"] = cmd(901, block="forever") if point == "batch" else batch(cmd(901, block="forever"), cmd(902, ret=U(50)))
    senders = None
    if pending in ("senders", "all"):
        senders = [[U(100 + 10 * k + j) for j in range(3)] for k in range(3)]
        sc["senders"] = senders
    # mode history first (C05): processed while idle
    for m in (modes_history or []):
        script.append(DO("send", msg=m))
    if modes_history:
        script.append(W("idle"))
    trigger = U(1)
    if point == "idle":
        script.append(W("idle"))
    elif point == "update":
        upd["u:1"] = {"pause": True}
        label = "update:u:1"
    elif point == "cmdsend":
        upd["u:1"] = {"pause": True, "cmd": cmd(7, ret=U(70))}
        label = "update:u:1"
    elif point == "view":
        # the view after the update of u:1: views are numbered from 1 (initial view)
        label = "view:VIEWK"
    elif point == "filter":
        o["filter"] = {"pause": ["u:1"]}
        label = "filter:u:1"
    elif point == "filterdrop":
        o["filter"] = {"pause": ["u:1"], "drop": ["u:1"]}
        label = "filter:u:1"
    elif point == "batch":
        o["filter"] = {"pause": ["b:batch"]}
        trigger = B("batch", cmds=[cmd(11, ret=U(61)), cmd(12, ret=U(62)), cmd(13, block="forever"), cmd(14, ret=U(64))])
        label = "filter:b:batch"
    elif point == "init":
        sc["init_ctl"] = {"pause": True}
        label = "init"
    elif point == "released":
        # the application has released the terminal itself (ReleaseTerminal) and not taken it back
        if cause in ("panic", "readerr"):       # no callback to panic in; nobody reads the input while it is released
            return None
        script += [W("idle"), DO("release-terminal"), DO("sleep", us=5000)]
    elif point == "exec":
        # inside the external command: the terminal is released
        trigger = B("exec", pause=True, cb=True)
        label = "exec:%d" % sum(1 for m in (modes_history or []) if m.get("b") == "exec")
    else:
        raise ValueError(point)
    if cause == "panic":
        # the panic happens in the paused callback itself when it is released
        if point == "update" or point == "cmdsend":
            upd["u:1"]["panic"] = True
        elif point == "view":
            pass  # set below together with pause_at
        elif point in ("filter", "filterdrop"):
            o["filter"]["panic"] = ["u:1"]
        elif point == "batch":
            o["filter"]["panic"] = ["b:batch"]
        elif point == "init":
            sc["init_ctl"]["panic"] = True
        else:
            return None
    if cause in ("cmdpanic", "seqpanic") and point == "init":
        return None
    # (Kill while Init runs is after renderer.start(): inside the model.  Kill racing the lines of Run before that is
    #  outside every property: p.renderer / p.handlers are written unsynchronised there.)
    if point not in ("init", "idle", "released"):
        script.append(DO("go-send", msg=trigger))
    if point == "view":
        view["pause_after"] = "u:1"
        if cause == "panic":
            view["panic_after"] = "u:1"
        label = "view:after:u:1"
    if label:
        if point == "init":
            script = [s for s in script if s != W("started")]
            script.append(W("pause:init"))
        else:
            script.append(W("pause:" + label))
    if senders:
        script.append(DO("start-senders"))
        script.append(DO("sleep", us=3000))
    if pending in ("input", "all") and cause != "readerr" and label and point != "init":
        # input that is read but cannot be delivered while the loop is busy
        script.append(DO("input", bytes=[120]))
        script.append(DO("sleep", us=3000))
    if before_api:
        for k, n in (("wait", 3), ("send", 2), ("println", 2), ("printf", 1), ("quit", 1)):
            if k == "quit" and cause not in ("quit", "quitapi"):
                continue
            script.append(DO("api", kind=k, n=n))
        if "quit" not in [cause] and False:
            pass
    # the cause
    if cause == "quit":
        script.append(DO("go-send", msg=B("quit")))
    elif cause == "quitapi":
        script.append(DO("api", kind="quit", n=1))
    elif cause == "interrupt":
        script.append(DO("go-send", msg=B("interrupt")))
    elif cause == "kill":
        script.append(DO("kill"))
    elif cause == "cancel":
        script.append(DO("cancel"))
    elif cause == "readerr":
        script.append(DO("close-input"))
    elif cause == "cmdpanic":
        script.append(DO("go-send", msg=B("batch", cmds=[cmd(21, panic=True)])))
    elif cause == "seqpanic":
        # the panicking command is an element of a Sequence, or a member of a batch inside one
        inner = cmd(21, panic=True) if i % 2 == 0 else batch(cmd(22, ret=U(52)), cmd(21, panic=True))
        script.append(DO("go-send", msg=B("sequence", cmds=[cmd(23, ret=U(53)), inner, cmd(24, ret=U(54))])))
    elif cause == "panic":
        pass
    elif cause in ("sigint", "sigterm"):
        o["nosighandler"] = False
        isolate = True
        script.append(DO("signal", sig="int" if cause == "sigint" else "term"))
    else:
        raise ValueError(cause)
    script.append(DO("sleep", us=hold_us))        # how long the paused callback keeps the loop busy after the cause was issued
    if second == "kill":
        script.append(DO("kill"))
        causes.append("kill")
    elif second == "cancel":
        script.append(DO("cancel"))
        causes.append("cancel")
    elif second == "quit":
        script.append(DO("go-send", msg=B("quit")))
        causes.append("quit")
    if second:
        script.append(DO("sleep", us=10000))
    if label:
        script.append(DO("release", label=label, all=True))
    if point == "batch" and cause in ("quit", "quitapi", "interrupt", "cmdpanic", "seqpanic", "readerr"):
        # these causes are messages behind the paused one: they need the loop to come round
        pass
    script.append(W("returned"))
    if after_api:
        for k, n in (("wait", 2), ("send", 2), ("println", 1), ("printf", 1), ("quit", 1)):
            script.append(DO("api", kind=k, n=n))
        script.append(W("api"))
    elif before_api:
        script.append(W("api"))
    s = scenario(i, script, opts=o, inp=inp, view=view, **sc)
    if upd:
        s["update"] = upd
    if isolate:
        s["isolate"] = True
    else:
        s["parallel_ok"] = True
    meta = {"cause": cause, "point": point, "pending": pending, "causes": causes, "before_api": before_api, "after_api": after_api,
            "opts": {k: v for k, v in o.items() if k != "filter"}, "modes_history": [m.get("b") for m in (modes_history or [])],
            "waits_before_run": waits_before_run}
    return s, meta


def allowed_causes(meta):
    """the causes whose error class the run may legitimately report"""
    cs = list(meta["causes"])
    # a panic in a callback that is released only after another cause struck cannot happen here (the panic IS the cause)
    return cs


def coq_outcomes(pairs):
    """pairs: [(meta, result)] -> Coq list literal of (id, outcome)"""
    items = []
    for meta, r in pairs:
        cs = "[" + "; ".join(CAUSE_COQ[c] for c in allowed_causes(meta)) + "]"
        items.append("(%d%%N, Build_outcome %s %s %s)" % (r["id"], cs, "true" if r["run_returned"] else "false", err_coq(r)))
    return "[" + ";\n  ".join(items) + "]"
