"""C01 — Run is a sequential, lossless, per-sender-ordered fold of Update over messages."""
import json
import os
import random

from .. import common as C
from .. import program as P

PROPS = ["C01"]
TRUSTED = [
    "L1 concurrent model Model/Conc.v: interleaving transition system (event loop, senders, dispatcher, sequence goroutines, cancellation) with rendezvous channels and a ghost event log; schedules are arbitrary label lists",
    "tie: gen/ChanOps.v says p.msgs / cmds are made unbuffered, p.msgs is received only in eventLoop, Update/View/filter are called inline in the loop (gen/Dispatch.v statement order); Send's body is the two-case select (gen/Signals.v shape)",
    "mutual exclusion of the callbacks holds in the model because they are program counters of one thread: a Go data race cannot be exhibited by the theorem; on real runs goroutine ids and interval overlap are checked (C01_single_loop_partial)",
]
PRE = ("From Coq Require Import List Bool Arith.\nImport ListNotations.\nFrom BT Require Import Model.Conc Spec.ConcSpec.\n")


def tag(i, k):
    return 1000 * (i + 1) + k


def gen(tier, rnd):
    cases = []
    n = 60 if tier == "quick" else 1500
    for c in range(n):
        ns = rnd.choice([1, 2, 3, 4, 8, 16, 32]) if tier != "quick" else rnd.choice([1, 2, 3, 5, 8, 16])
        per = rnd.choice([1, 3, 8, 20]) if ns <= 8 else rnd.choice([1, 3, 6])
        senders = [[tag(i, k) for k in range(rnd.randint(1, per))] for i in range(ns)]
        mode = rnd.choice(["complete", "complete", "quit-midway", "kill-midway"])
        slow = rnd.choice([None, "update-sleep", "update-yield", "view-sleep", "cmds"])
        # the loop held inside one Update for 150 ms / 2.6 s while senders are blocked in Send: a Send that gives up, or
        # completes behind the loop's back, after some time-out shows here (complete mode: every message must arrive)
        if c % 12 == 5:
            slow, mode = "hold-150ms", "complete"
        if c in (7, 31) or (tier != "quick" and c % 100 == 7):
            slow, mode = "hold-2600ms", "complete"
        cases.append({"senders": senders, "mode": mode, "slow": slow, "gomaxprocs": rnd.choice([0, 0, 1, 2, 4, 16]),
                      "filter": rnd.random() < 0.3, "slow_init": rnd.random() < 0.3,
                      # the terminal is released (Exec) while senders are active, with an input that cannot be cancelled
                      "exec": mode == "complete" and rnd.random() < 0.25})
    return cases


def scenarios(cases):
    scs = []
    for i, c in enumerate(cases):
        script = [P.W("started")]
        sc = {}
        o = {"fps": 120}
        if c["filter"]:
            o["filter"] = {}
        if c["slow"] == "update-sleep":
            sc["update_default"] = {"sleep_us": 300}
        elif c["slow"] == "update-yield":
            sc["update_default"] = {"yield": 3}
        elif c["slow"] in ("hold-150ms", "hold-2600ms"):
            first = c["senders"][0][0]
            sc["update"] = {"u:%d" % first: {"sleep_us": 150000 if c["slow"] == "hold-150ms" else 2600000}}
        elif c["slow"] == "cmds":
            # every Update returns a command whose result is another message (more traffic, from command goroutines)
            sc["update_default"] = {"cmd": P.cmd(5, ret=P.U(7))}
            sc["update"] = {"u:7": {}}
        if c.get("slow_init"):
            sc["init_ctl"] = {"sleep_us": 3000, "yield": 2}
        if c.get("exec"):
            script += [P.DO("input", bytes=[107]), P.DO("sleep", us=3000), P.W("idle"), P.DO("go-send", msg=P.B("exec", cb=(len(c["senders"]) <= 7))), P.DO("sleep", us=1000)]   # (the callback's message is u:9000: no sender may own that tag)
        if c["mode"] == "complete":
            script += [P.DO("start-senders"), P.DO("wait-senders"), P.DO("sleep", us=2000), P.W("idle"), P.DO("quit"), P.W("returned")]
        elif c["mode"] == "quit-midway":
            script += [P.DO("start-senders"), P.DO("sleep", us=400), P.DO("quit"), P.W("returned")]
        else:
            script += [P.DO("start-senders"), P.DO("sleep", us=400), P.DO("kill"), P.W("returned")]
        inp = {"kind": "reader", "end": "hold"} if c.get("exec") else None
        s = P.scenario(i, script, opts=o, inp=inp, senders=[[P.U(t) for t in l] for l in c["senders"]], watchdog_ms=9000 if c["slow"] == "hold-2600ms" else 5000, **sc)
        if c["gomaxprocs"]:
            s["gomaxprocs"] = c["gomaxprocs"]
        else:
            s["parallel_ok"] = True
        scs.append(s)
    return scs


def analyse(c, r):
    """python-side statements on the real log: overlap, single goroutine, model threading; returns (problems, projected)"""
    probs = []
    evs = r["events"]
    opened = None
    gids = set()
    for e in evs:
        k = e["ev"]
        if k in ("InitBegin", "UpdateBegin", "ViewBegin", "FilterBegin"):
            if opened is not None:
                probs.append(("overlap", "%s began while %s was in progress" % (k, opened)))
            opened = k
            gids.add(e["g"])
        elif k in ("InitEnd", "UpdateEnd", "ViewEnd", "FilterEnd"):
            if opened is None or opened[:-5] != k[:-3]:
                probs.append(("overlap", "%s without matching begin (open: %s)" % (k, opened)))
            opened = None
    if len(gids) > 1:
        probs.append(("goroutine", "callbacks ran on %d different goroutines" % len(gids)))
    ver = 0
    for e in evs:
        if e["ev"] == "UpdateBegin":
            if e["ver"] != ver:
                probs.append(("threading", "Update received model %d, the previous Update returned %d" % (e["ver"], ver)))
        elif e["ev"] == "UpdateEnd":
            ver = e["out"]
        elif e["ev"] in ("ViewBegin", "FilterBegin") and e.get("ver") is not None and e["ver"] != ver:
            probs.append(("threading", "%s saw model %d, current is %d" % (e["ev"], e["ver"], ver)))
    if r["run_returned"] and r["final_ver"] != ver:
        probs.append(("threading", "Run returned model %d, the last Update returned %d" % (r["final_ver"], ver)))
    upd_tags = [int(e["key"][2:]) for e in evs if e["ev"] == "UpdateBegin" and e.get("key", "").startswith("u:") and int(e["key"][2:]) >= 1000]
    if c.get("exec") and len(c["senders"]) <= 7:
        upd_tags = [t for t in upd_tags if t != 9000]        # the message of the Exec callback (sent by the program itself, not by a sender)
    return probs, upd_tags


PUBLIC = [P.B("windowsizemsg", w=80, h=24), P.B("windowsizemsg", w=0, h=0), P.B("windowsizemsg", w=120, h=40), P.B("focus"), P.B("blur"),
          P.B("resume"), P.B("nil"),
          # user messages of unusual shapes: typed nils (a nil slice / map / pointer / func is a message like any other) and a
          # message whose type implements error
          P.B("tn-slice"), P.B("tn-map"), P.B("tn-ptr"), P.B("tn-func"), P.B("errmsg", w=7), P.B("errmsg", w=8)]


def public_family(res, tier, rnd):
    """one sender, messages of the public built-in types (window sizes incl. repeats and 0x0, focus, blur, resume) mixed with
    user messages: Update gets exactly what was sent, in order - a message the loop swallows or de-duplicates is lost"""
    okb, out = C.build_harness()
    if not okb:
        raise C.Fail("harness build failed (does /repo still compile with -tags verif?):\n" + out[-3000:])
    def key(m):
        if "u" in m:
            return "u:%d" % m["u"]
        if m["b"].startswith("tn-"):
            return "tn:" + m["b"][3:]
        if m["b"] == "errmsg":
            return "err:%d" % m.get("w", 0)
        return {"windowsizemsg": "ws:%dx%d" % (m.get("w", 0), m.get("h", 0)), "focus": "b:focus", "blur": "b:blur", "resume": "b:resume"}.get(m["b"], "b:" + m["b"])
    scs, sent = [], []
    for i in range(12 if tier == "quick" else 200):
        msgs = []
        for k in range(rnd.randint(3, 14)):
            r = rnd.random()
            if r < 0.35:
                msgs.append(P.U(3000 + k))
            elif r < 0.55 and msgs:
                msgs.append(dict(rnd.choice(msgs)))            # an exact repeat of an earlier message
            else:
                msgs.append(dict(rnd.choice(PUBLIC)))
        if i % 3 == 0:
            msgs.insert(0, P.B("windowsizemsg", w=0, h=0))
        script = [P.W("started"), P.W("idle")] + [P.DO("send", msg=m) for m in msgs] + [P.W("idle"), P.DO("quit"), P.W("returned")]
        scs.append(P.scenario(i, script, opts={"fps": 120}, parallel_ok=True, watchdog_ms=4000))
        sent.append([key(m) for m in msgs if m.get("b") != "nil"])      # a nil message is dropped by the loop (documented)
    results, _ = P.run_scenarios("C01_public", scs, timeout=900)
    bad = []
    for i, (want, r) in enumerate(zip(sent, results)):
        if P.machinery_problem(r) or not r["run_returned"]:
            bad.append((i, "scenario did not complete: %s" % P.summarize(r)))
            continue
        got = [e["key"] for e in r["events"] if e["ev"] == "UpdateBegin"]
        if got != want:
            bad.append((i, "sent %s; Update received %s" % (want, got)))
    res.oblige("Spec on real runs: messages of the public built-in types (repeated and zero window sizes, focus, blur, resume) and of unusual shapes (typed nils, a message that is an error) sent by the application reach Update exactly as sent (%d runs)" % len(scs),
               not bad, [b[1] for b in bad[:2]])
    for i, what in bad[:1]:
        res.violation("C01:public-lost", what, {"scenario": scs[i]})
    res.coverage["public_family"] = len(scs)
    return not bad


def outside_calls_family(res, tier, rnd):
    """the application calls the Program's own methods (ReleaseTerminal / RestoreTerminal, Println, Send) from another
    goroutine while Update (or View, or the filter) is in progress: no callback may begin before that one has returned"""
    scs, metas = [], []
    for i in range(9 if tier == "quick" else 90):
        where = ["update", "view", "filter"][i % 3]
        alt = bool((i // 3) % 2)
        o = {"fps": 120, "alt": alt}
        upd, view = {}, {}
        label = None
        if where == "update":
            upd["u:1"] = {"pause": True}
            label = "update:u:1"
        elif where == "view":
            view["pause_after"] = "u:1"
            label = "view:after:u:1"
        else:
            o["filter"] = {"pause": ["u:1"]}
            label = "filter:u:1"
        script = [P.W("started"), P.W("idle"), P.DO("release-terminal"), P.DO("go-send", msg=P.U(1)), P.W("pause:" + label),
                  P.DO("restore-terminal"), P.DO("api", kind="println", n=1), P.DO("sleep", us=20000),
                  P.DO("release", label=label, all=True), P.DO("sleep", us=20000), P.W("idle"), P.DO("send", msg=P.U(2)), P.W("idle"),
                  P.DO("quit"), P.W("returned")]
        scs.append(P.scenario(i, script, opts=o, update=upd, view=view, parallel_ok=True, watchdog_ms=4000))
        metas.append({"where": where, "alt": alt})
    results, _ = P.run_scenarios("C01_outside", scs, timeout=900)
    bad = []
    for m, r in zip(metas, results):
        if P.machinery_problem(r) or not r["run_returned"]:
            bad.append((m, "scenario did not complete: %s" % P.summarize(r)))
            continue
        probs, _ = analyse({"senders": [], "mode": "complete"}, r)
        if probs:
            bad.append((m, "RestoreTerminal / Println called by the application while %s was in progress (%s): %s" % (m["where"], "alt screen" if m["alt"] else "inline", probs[0][1])))
    res.oblige("Spec on real runs: Program methods called from another goroutine while a callback is in progress start no second callback (%d runs)" % len(scs),
               not bad, [b[1] for b in bad[:2]])
    for m, what in bad[:1]:
        res.violation("C01:overlap:outside-call", what, {"scenario_meta": m})
    res.coverage["outside_calls_family"] = len(scs)


def run(res, tier, seed):
    rnd = random.Random(seed * 7919 + 1)
    outside_calls_family(res, tier, random.Random(seed * 7919 + 12))
    public_family(res, tier, random.Random(seed * 7919 + 11))
    have_props = os.path.exists(os.path.join(C.COQ, "theories", "Props", "C01.v"))
    proofs_ok, broken = C.proof_obligations(res, PROPS if have_props else [], extra_targets=["theories/Spec/ConcSpec.vo"])
    if not have_props:
        res.oblige("theorems:Props/C01.v present", False, "the proofs of the concurrent model are not in this revision")
    tie_ok = tie(res)
    okb, out = C.build_harness()
    if not okb:
        raise C.Fail("harness build failed (does /repo still compile with -tags verif?):\n" + out[-3000:])
    cases = gen(tier, rnd)
    results, dt = P.run_scenarios("C01", scenarios(cases), timeout=3000)
    mach = [(c, r) for c, r in zip(cases, results) if P.machinery_problem(r) or not r["run_returned"]]
    res.oblige("harness: every scenario ran as scripted (%d)" % len(cases), not mach, [(c["mode"], P.summarize(r)) for c, r in mach[:1]])
    rows, py_bad = [], []
    for i, (c, r) in enumerate(zip(cases, results)):
        res.count((len(c["senders"]), sum(len(x) for x in c["senders"]), c["mode"], c["slow"], c["gomaxprocs"]))
        probs, upd_tags = analyse(c, r)
        if probs:
            py_bad.append((i, probs))
        # completed sends: SendDone logged strictly before the termination was requested (complete mode: all of them)
        done = set()
        if c["mode"] == "complete":
            done = {t for l in c["senders"] for t in l}
        scripts = "[" + "; ".join("[" + "; ".join("MUser %d" % t for t in l) + "]" for l in c["senders"]) + "]"
        # the projected log: one ERecv per user message, in the order the loop took them (= Update order)
        sender_of = {t: si for si, l in enumerate(c["senders"]) for t in l}
        log = "[" + "; ".join("ERecv (WSender %d) (MUser %d); EUpdate (MUser %d) None" % (sender_of.get(t, 999), t, t) for t in upd_tags) + "]"
        must = "[" + "; ".join(str(t) for t in sorted(done)) + "]"
        rows.append("(%d, %s, %s, %s, %s)" % (i, scripts, log, must, "true" if c["mode"] == "complete" else "false"))
    rows_def = "Definition rows : list (nat * list (list msg) * list ev * list nat * bool) := [%s]."
    body = ["Definition upd_tags (log : list ev) : list nat := flat_map (fun e => match e with EUpdate (MUser t) _ => [t] | _ => [] end) log.",
            # per-sender order + nothing invented: what was taken from sender i is a prefix of its script (complete: all of it)
            "Definition row_ok (x : nat * list (list msg) * list ev * list nat * bool) : bool := let '(_, scripts, log, must, complete) := x in "
            "forallb (fun i => prefixb msg_eqb (recv_from (WSender i) log) (nth i scripts [])) (seq 0 (length scripts)) && "
            "(negb complete || per_sender_ok scripts (map (fun _ => []) scripts) log) && "
            "updates_ok log && NoDup_b (upd_tags log) && forallb (fun t => existsb (Nat.eqb t) (upd_tags log)) must && "
            "forallb (fun t => existsb (fun l => existsb (fun m => msg_eqb m (MUser t)) l) scripts) (upd_tags log).",
            "Definition bad := map (fun x => fst (fst (fst (fst x)))) (filter (fun x => negb (row_ok x)) rows)."]
    pre = PRE + "Fixpoint NoDup_b (l : list nat) : bool := match l with [] => true | x :: t => negb (existsb (Nat.eqb x) t) && NoDup_b t end.\n"
    bad, _ = C.coq_eval_sharded("cases_C01", pre, rows, rows_def, body, "bad", shard=60)
    res.oblige("Spec on real logs (Coq: Spec.ConcSpec.per_sender_ok / updates_ok; exactly once, none invented, per-sender order), %d runs" % len(cases), not bad,
               [cases[i] for i in bad[:1]])
    res.oblige("Spec on real logs: Init/Update/View/filter never overlap, run on one goroutine, each Update gets the previous Update's model, Run returns the last", not py_bad,
               py_bad[:2])
    found = False
    for i, probs in py_bad[:1]:
        res.violation("C01:%s" % probs[0][0], probs[0][1], {"case": cases[i], "problems": probs[:5],
                                                            "events": [(e["ev"], e.get("key"), e.get("ver"), e.get("g")) for e in results[i]["events"][:80]]})
        found = True
    for i in bad[:1]:
        c, r = cases[i], results[i]
        _, upd_tags = analyse(c, r)
        sent = [t for l in c["senders"] for t in l]
        what = "lost" if any(t not in upd_tags for t in sent) and c["mode"] == "complete" else "duplicated" if len(set(upd_tags)) != len(upd_tags) else "reordered-or-invented"
        res.violation("C01:%s" % what, "user messages passed to Update are not exactly the completed sends, once each, in per-sender order (%s)" % what,
                      {"case": c, "updates": upd_tags, "scripts": c["senders"]})
        found = True
    if not found and not res.violations and (not proofs_ok or not tie_ok):
        res.violation("C01:obligation", "proof obligation or tie no longer checks (%s); the Spec held on all %d real logs" % (broken, len(cases)),
                      {"broken": broken, "searched": "%d runs" % len(cases)}, found_input=False)
    res.coverage["input_distribution"] = {
        "senders": {str(k): sum(1 for c in cases if len(c["senders"]) == k) for k in sorted({len(c["senders"]) for c in cases})},
        "messages_total": sum(len(x) for c in cases for x in c["senders"]),
        "modes": {m: sum(1 for c in cases if c["mode"] == m) for m in ("complete", "quit-midway", "kill-midway")},
        "slow": {str(m): sum(1 for c in cases if c["slow"] == m) for m in (None, "update-sleep", "update-yield", "view-sleep", "cmds", "hold-150ms", "hold-2600ms")},
        "gomaxprocs": {str(g): sum(1 for c in cases if c["gomaxprocs"] == g) for g in (0, 1, 2, 4, 16)},
        "slow_init": sum(1 for c in cases if c.get("slow_init")), "with_exec_and_uncancellable_input": sum(1 for c in cases if c.get("exec")),
    }
    res.coverage["traces_validated_against_impl"] = len(cases)
    res.samples = [{"senders": len(c["senders"]), "msgs": sum(len(x) for x in c["senders"]), "mode": c["mode"], "slow": c["slow"]} for c in cases[:6]]
    return res.finish(rule="1..32 concurrent senders x 1..20 messages each x slow/yielding Update, traffic from command goroutines, filter on/off x GOMAXPROCS 1/2/4/16 x complete / quit midway / Kill midway; distinct = (senders, messages, mode, slowness, GOMAXPROCS)",
                      trusted_extra=TRUSTED)


def tie(res):
    """K1 facts the concurrent model rests on, evaluated on the regenerated inventories"""
    pre = ("From Coq Require Import List Bool String.\nImport ListNotations.\nOpen Scope string_scope.\n"
           "From BT Require Import Model.GenTypes Model.Skel Model.SkelTie.\nFrom BTGen Require ChanOps Dispatch Signals.\n")
    body = ["Definition msgs_recv_only_in_loop := forallb (fun o => negb (co_chan o =? \"p.msgs\") || negb (is_recv o) || (co_func o =? \"eventLoop\")) ChanOps.chanops.",
            "Definition send_shape := shapes_ok_for [\"Send\"].",
            "Definition order_ok := (match Dispatch.pre_switch with [\"filter\"; \"nilcheck\"] => true | _ => false end) && "
            "(match Dispatch.post_switch with [\"handleMessages\"; \"Update\"; \"cmds<-:ctx\"; \"write(View)\"] => true | _ => false end).",
            "Definition t := (rendezvous_channels, msgs_recv_only_in_loop, send_shape, order_ok, nothing_unsupported)."]
    vals, _ = C.coq_eval("cases_C01_tie", pre, body, ["t"], timeout=300)
    flags = [x == "true" for x in __import__("re").findall(r'true|false', vals["t"])]
    names = ["p.msgs / cmds / p.errs are rendezvous channels", "p.msgs is received only in eventLoop", "Send is the two-case select", "filter, nil check, switch, handleMessages, Update, hand-off, write(View) in this order", "nothing unsupported"]
    ok = all(flags) and len(flags) == 5
    res.oblige("tie (K1): " + "; ".join(names), ok, dict(zip(names, flags)))
    return ok


def replay(res, path):
    d = json.load(open(path))
    c = d.get("case")
    if not c:
        raise C.Fail("replay file has no case")
    C.build_harness()
    results, _ = P.run_scenarios("C01_replay", scenarios([c]))
    probs, upd_tags = analyse(c, results[0])
    print("problems:", probs)
    print("updates:", upd_tags)
    res.oblige("replayed", True)
    return res.finish(rule="replay", trusted_extra=TRUSTED)
