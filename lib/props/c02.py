"""C02 — every command runs exactly once, off the event loop; its result arrives once."""
import json
import os
import random

from .. import common as C
from .. import program as P
from . import c01

PROPS = ["C02"]
TRUSTED = c01.TRUSTED[:2] + [
    "commands.go Batch (nil entries dropped, none => nil command, one => the command itself) is mirrored by the harness-side flattening and tied by its shape (gen/Signals.v)",
]
PRE = c01.PRE


class Gen:
    def __init__(self, rnd):
        self.rnd = rnd
        self.next_id = 100
        self.leaves = {}     # id -> dict(ret, block)

    def leaf(self, allow_block=True):
        r = self.rnd
        i = self.next_id
        self.next_id += 1
        x = r.random()
        block = None
        if allow_block and x < 0.15:
            block = "gate:g"
        elif allow_block and x < 0.25:
            block = "forever"
        ret = None if r.random() < 0.25 else 5000 + i
        self.leaves[i] = {"ret": ret, "block": block}
        d = P.cmd(i, ret=P.U(ret) if ret is not None else None, block=block, sleep_us=r.choice([0, 0, 50, 300]))
        return d

    def tree(self, depth):
        r = self.rnd
        x = r.random()
        if depth <= 0 or x < 0.35:
            return self.leaf()
        if x < 0.45:
            return None            # nil command
        n = r.choice([0, 1, 1, 2, 3, 5])
        kids = [self.tree(depth - 1) for _ in range(n)]
        return {"id": 0, "batch": kids}


def effective(t):
    """what tea.Batch makes of a tree: the list of leaves that will be handed to the dispatcher at any depth"""
    if t is None:
        return []
    if "batch" in t:
        out = []
        for k in t["batch"]:
            out += effective(k)
        return out
    return [t["id"]]


def gen(tier, rnd):
    cases = []
    n = 60 if tier == "quick" else 2000
    for c in range(n):
        g = Gen(rnd)
        init = g.tree(rnd.choice([0, 1, 2, 3, 4]))
        if c % 5 == 0:
            # a plain command straight from Init that never returns (or a batch collapsing to it): must not delay anything
            lf = g.leaf()
            g.leaves[lf["id"]]["block"] = lf["block"] = rnd.choice(["forever", "forever", "gate:g"])
            init = lf if rnd.random() < 0.5 else {"id": 0, "batch": [None, lf, None]}
        triggers = {}
        for k in range(rnd.choice([0, 1, 2, 4])):
            triggers[k + 1] = g.tree(rnd.choice([0, 1, 2, 4]))
        if c % 7 == 3:
            # many commands in flight at once: a wide batch of quick commands, and more blocked commands than any
            # plausible pool size, followed by one that must still run
            wide = [g.leaf(allow_block=False) for _ in range(rnd.choice([18, 24, 40]))]
            blocked = []
            for _ in range(rnd.choice([17, 20, 33])):
                lf = g.leaf()
                g.leaves[lf["id"]]["block"] = lf["block"] = "forever"
                blocked.append(lf)
            triggers = {1: {"id": 0, "batch": wide}, 2: {"id": 0, "batch": blocked}, 3: g.leaf(allow_block=False)}
        nil_paths = c % 4 == 1
        reuse = rnd.random() < 0.25 and c % 7 != 3
        if reuse:
            # two consecutive Updates, each returning a batch built in the model's scratch buffer
            triggers = {}
            for k in range(2):
                kids = [g.leaf(allow_block=False) for _ in range(rnd.choice([2, 3]))]
                triggers[k + 1] = {"id": 0, "batch": kids, "reuse": True}
        cases.append({"init": init, "triggers": triggers, "leaves": g.leaves, "reuse": reuse, "gomaxprocs": rnd.choice([0, 0, 0, 1, 4]),
                      "nil_paths": nil_paths})
    return cases


def scenarios(cases):
    scs = []
    for i, c in enumerate(cases):
        script = [P.W("started")]
        upd = {}
        for k, t in c["triggers"].items():
            upd["u:%d" % k] = {"cmd": t} if t is not None else {}
        if c["reuse"]:
            # both trigger messages are in flight before the first batch message can come back
            upd["u:1"]["pause"] = True
            script += [P.DO("go-send", msg=P.U(1)), P.W("pause:update:u:1"), P.DO("go-send", msg=P.U(2)), P.DO("sleep", us=2000),
                       P.DO("release", label="update:u:1", all=True)]
        else:
            for k in c["triggers"]:
                script.append(P.DO("send", msg=P.U(k)))
        if c.get("nil_paths"):
            # nil by the paths that do not go through the dispatcher: Send(nil), a nil result inside a Sequence, and
            # a nil result of a batch inside a Sequence
            script += [P.DO("send", msg=P.B("nil")),
                       P.DO("send", msg=P.B("sequence", cmds=[P.cmd(8001), P.cmd(8002, ret=P.U(8802)), {"id": 0, "batch": [P.cmd(8003), P.cmd(8004, ret=P.U(8804))]}])),
                       P.DO("sleep", us=3000)]
        script += [P.W("idle"), P.DO("send", msg=P.U(9999)), P.W("idle"), P.DO("gate", name="g"), P.DO("sleep", us=25000), P.W("idle"), P.DO("quit"), P.W("returned")]
        # every third program runs with WithoutCatchPanics (no command panics here): commands are off the loop all the same
        s = P.scenario(i, script, opts={"fps": 120, "nocatch": i % 3 == 2}, init=c["init"], update=upd, watchdog_ms=5000)
        if c["gomaxprocs"]:
            s["gomaxprocs"] = c["gomaxprocs"]
        else:
            s["parallel_ok"] = True
        scs.append(s)
    return scs


def expected_leaves(c):
    out = effective(c["init"])
    for k, t in c["triggers"].items():
        out += effective(t)
    return out


def analyse(c, r):
    probs = []
    evs = r["events"]
    loop_g = {e["g"] for e in evs if e["ev"] in ("UpdateBegin", "InitBegin", "ViewBegin")}
    starts = [e for e in evs if e["ev"] == "CmdStart" and e["id"] < 8000]     # (8000+: the fixed nil-path sequence)
    exp = sorted(expected_leaves(c))
    got = sorted(e["id"] for e in starts)
    if got != exp:
        from collections import Counter
        ce, cg = Counter(exp), Counter(got)
        twice = sorted(i for i in cg if cg[i] > ce.get(i, 0))
        never = sorted(i for i in ce if ce[i] > cg.get(i, 0))
        probs.append(("invocations", "commands invoked more often than returned: %s; never invoked: %s" % (twice, never)))
    onloop = [e["id"] for e in starts if e["g"] in loop_g]
    if onloop:
        probs.append(("on-loop", "commands %s were invoked on the event-loop goroutine" % onloop))
    keys = [e.get("key", "") for e in evs if e["ev"] == "UpdateBegin"]
    if "nil" in keys or "b:batch" in keys:
        probs.append(("reaches-update", "a nil result or a BatchMsg was passed to Update"))
    marker = next((e["c"] for e in evs if e["ev"] == "UpdateBegin" and e.get("key") == "u:9999"), None)
    for i, lf in c["leaves"].items():
        i = int(i)
        if i not in exp:
            continue
        n = keys.count("u:%d" % lf["ret"]) if lf["ret"] is not None else 0
        want = 0 if lf["ret"] is None or lf["block"] == "forever" else 1
        if n != want * exp.count(i):
            probs.append(("delivery", "result of command %d delivered %d times (expected %d)" % (i, n, want * exp.count(i))))
        # a blocked sibling delays nothing: unblocked results arrive before the marker (sent while the gate is closed)
        if want and lf["block"] is None and marker is not None:
            cl = next((e["c"] for e in evs if e["ev"] == "UpdateBegin" and e.get("key") == "u:%d" % lf["ret"]), None)
            if cl is not None and cl > marker:
                probs.append(("delayed", "result of the non-blocking command %d arrived only after blocked commands were released" % i))
    return probs


def coq_row(i, c, r):
    evs = [e for e in r["events"] if not (e["ev"] in ("CmdStart", "CmdEnd") and e["id"] >= 8000)]
    order = [e["id"] for e in evs if e["ev"] == "CmdStart"]
    idx = {}
    for j, cid in enumerate(order):
        idx.setdefault(cid, []).append(j)
    used = {}
    items = []
    ret_of = {int(k): v["ret"] for k, v in c["leaves"].items()}
    tag_owner = {v: k for k, v in ret_of.items() if v is not None}
    for e in evs:
        if e["ev"] == "CmdStart":
            j = idx[e["id"]][used.get(("s", e["id"]), 0)]
            used[("s", e["id"])] = used.get(("s", e["id"]), 0) + 1
            items.append("EHand %d; EStart (WCmd %d) %d" % (e["id"], j, e["id"]))
        elif e["ev"] == "CmdEnd":
            k = used.get(("e", e["id"]), 0)
            if k < len(idx.get(e["id"], [])):
                items.append("EEnd (WCmd %d) %d" % (idx[e["id"]][k], e["id"]))
            used[("e", e["id"])] = k + 1
        elif e["ev"] == "UpdateBegin" and e.get("key", "").startswith("u:"):
            t = int(e["key"][2:])
            if t in tag_owner and tag_owner[t] in idx:
                k = used.get(("r", t), 0)
                j = idx[tag_owner[t]][min(k, len(idx[tag_owner[t]]) - 1)]
                used[("r", t)] = k + 1
                items.append("ERecv (WCmd %d) (MUser %d); EUpdate (MUser %d) None" % (j, t, t))
    cres = "(fun c => match c with %s | _ => MNil end)" % " | ".join("%d => MUser %d" % (k, v) for k, v in ret_of.items() if v is not None) \
        if any(v is not None for v in ret_of.values()) else "(fun _ => MNil)"
    exp = "[" + "; ".join(str(x) for x in expected_leaves(c)) + "]"
    return "(%d, %s, [%s], %s)" % (i, cres, "; ".join(items), exp)


def raw_family(res, tier, rnd):
    """batches that do not come fresh out of tea.Batch: a BatchMsg literal with nil entries (sent, and returned by a
    command, also nested), and one stored Batch command handed out by several Updates: every non-nil entry runs once per
    dispatch, its result arrives once per run, the program lives on"""
    okb, out = C.build_harness()
    if not okb:
        raise C.Fail("harness build failed (does /repo still compile with -tags verif?):\n" + out[-3000:])
    scs, metas = [], []
    for i in range(14 if tier == "quick" else 140):
        kind = ["raw-send", "raw-from-cmd", "raw-nested", "stored", "equal-results", "blocked-in-sequence", "during-exec"][i % 7]
        ids = [200 + 10 * i + k for k in range(rnd.choice([2, 3, 5]))]
        leaves = [P.cmd(j, ret=P.U(6000 + j)) for j in ids]
        upd, script, times = {}, [P.W("started"), P.W("idle")], 1
        if kind == "during-exec":
            # commands (one of them returning a nested batch) finish while the loop is inside an external command: their
            # results wait in Send and are delivered afterwards
            inner = [P.cmd(j + 500, ret=P.U(6000 + j + 500)) for j in ids[:2]]
            leaves = [P.cmd(j, ret=P.U(6000 + j), sleep_us=30000) for j in ids] + [P.cmd(197, ret=P.B("batch", cmds=inner), sleep_us=30000)]
            ids = ids + [j + 500 for j in ids[:2]]
            upd["u:1"] = {"cmd": {"id": 0, "batch": leaves}}
            script += [P.DO("send", msg=P.U(1)), P.DO("go-send", msg=P.B("exec", pause=True, cb=True)), P.W("pause:exec:0"), P.DO("sleep", us=120000),
                       P.DO("release", label="exec:0", all=True), P.DO("sleep", us=40000)]
        elif kind == "blocked-in-sequence":
            # a batch that is an element of a Sequence: 40 members never return, the one behind them must still run and deliver
            blocked = [P.cmd(3000 + k, block="forever") for k in range(40)]
            leaves = [P.cmd(j, ret=P.U(6000 + j)) for j in ids[:1]]
            ids = ids[:1]
            upd["u:1"] = {"cmd": {"id": 0, "seq": [{"id": 0, "batch": blocked + leaves}]}}
            script += [P.DO("send", msg=P.U(1))]
        elif kind == "equal-results":
            # several commands whose results are equal values of a built-in or unusual type: one delivery each
            val = [P.B("windowsizemsg", w=80, h=24), P.B("errmsg", w=3), P.B("tn-slice"), P.B("focus")][(i // 5) % 4]
            leaves = [P.cmd(j, ret=dict(val)) for j in ids]
            upd["u:1"] = {"cmd": {"id": 0, "batch": leaves}}
            script += [P.DO("send", msg=P.U(1))]
            eqkey = {"windowsizemsg": "ws:80x24", "errmsg": "err:3", "tn-slice": "tn:slice", "focus": "b:focus"}[val["b"]]
        elif kind == "raw-send":
            entries = [None] + leaves[:1] + [None] + leaves[1:] + [None]
            script += [P.DO("send", msg=P.B("batch", cmds=entries))]
        elif kind == "raw-from-cmd":
            entries = leaves[:1] + [None] + leaves[1:]
            upd["u:1"] = {"cmd": P.cmd(199, ret=P.B("batch", cmds=entries))}
            script += [P.DO("send", msg=P.U(1))]
        elif kind == "raw-nested":
            inner = P.cmd(198, ret=P.B("batch", cmds=[None] + leaves[1:]))
            upd["u:1"] = {"cmd": {"id": 0, "batch": [leaves[0], inner]}}
            script += [P.DO("send", msg=P.U(1))]
        else:
            times = rnd.choice([2, 3])
            stored = {"id": 0, "batch": leaves, "cache": True}
            upd["u:1"] = {"cmd": stored}           # one command value (the harness caches per Update entry), returned `times` times
            for k in range(times):
                script += [P.DO("send", msg=P.U(1)), P.DO("sleep", us=4000), P.W("idle")]
        script += [P.DO("sleep", us=6000), P.W("idle"), P.DO("sleep", us=3000), P.W("idle"), P.DO("quit"), P.W("returned")]
        scs.append(P.scenario(i, script, opts={"fps": 120}, update=upd, parallel_ok=True, watchdog_ms=4000, inp={"kind": "pipe"} if kind == "during-exec" else None))
        metas.append({"kind": kind, "ids": ids, "times": times, "eqkey": eqkey if kind == "equal-results" else None})
    results, _ = P.run_scenarios("C02_raw", scs, timeout=900)
    bad = []
    for i, (m, r) in enumerate(zip(metas, results)):
        if P.machinery_problem(r) or not r["run_returned"]:
            bad.append((i, "scenario did not complete: %s" % P.summarize(r)))
            continue
        if r["run_err"] != "nil":
            bad.append((i, "%s: Run ended with %s" % (m["kind"], r["run_err"])))
            continue
        evs = r["events"]
        if m["kind"] == "equal-results":
            n = sum(1 for e in evs if e["ev"] == "UpdateBegin" and e.get("key") == m["eqkey"])
            if n != len(m["ids"]):
                bad.append((i, "%d commands of one batch each returned an equal message (%s); Update received it %d times" % (len(m["ids"]), m["eqkey"], n)))
            continue
        for j in m["ids"]:
            ns = sum(1 for e in evs if e["ev"] == "CmdStart" and e["id"] == j)
            nr = sum(1 for e in evs if e["ev"] == "UpdateBegin" and e.get("key") == "u:%d" % (6000 + j))
            if ns != m["times"] or nr != m["times"]:
                bad.append((i, "%s: command %d of the batch was run %d times and its result delivered %d times; the batch was dispatched %d times" % (m["kind"], j, ns, nr, m["times"])))
                break
    res.oblige("Spec on real runs: BatchMsg literals with nil entries (sent / returned by a command / nested) and a stored Batch command dispatched 2-3 times: every entry runs and delivers once per dispatch (%d runs)" % len(scs),
               not bad, [b[1] for b in bad[:2]])
    for i, what in bad[:1]:
        res.violation("C02:raw-batch", what, {"scenario": scs[i], "meta": metas[i]})
    res.coverage["raw_batch_family"] = len(scs)


def run(res, tier, seed):
    rnd = random.Random(seed * 7919 + 2)
    raw_family(res, tier, random.Random(seed * 7919 + 22))
    have_props = os.path.exists(os.path.join(C.COQ, "theories", "Props", "C02.v"))
    proofs_ok, broken = C.proof_obligations(res, PROPS if have_props else [], extra_targets=["theories/Spec/ConcSpec.vo"])
    if not have_props:
        res.oblige("theorems:Props/C02.v present", False, "the proofs of the concurrent model are not in this revision")
    tie_ok = c01.tie(res) and tie_batch(res)
    okb, out = C.build_harness()
    if not okb:
        raise C.Fail("harness build failed (does /repo still compile with -tags verif?):\n" + out[-3000:])
    cases = gen(tier, rnd)
    results, dt = P.run_scenarios("C02", scenarios(cases), timeout=3000)
    mach = [(c, r) for c, r in zip(cases, results) if P.machinery_problem(r)]
    res.oblige("harness: every scenario ran as scripted (%d)" % len(cases), not mach, [P.summarize(r) for c, r in mach[:1]])
    norun = [(i, c, r) for i, (c, r) in enumerate(zip(cases, results)) if not r["run_returned"] and not P.machinery_problem(r)]
    res.oblige("Spec on real runs: the program processes its messages and exits although commands block forever", not norun,
               [(c["init"], r.get("script_timeout")) for i, c, r in norun[:2]])
    py_bad = []
    rows = []
    for i, (c, r) in enumerate(zip(cases, results)):
        res.count(json.dumps([c["init"], c["triggers"]], sort_keys=True))
        pr = analyse(c, r) if r["run_returned"] else []
        if pr:
            py_bad.append((i, pr))
        rows.append(coq_row(i, c, r))
    rows_def = "Definition rows : list (nat * (cmdid -> msg) * list ev * list cmdid) := [%s]."
    body = ["Definition row_ok (x : nat * (cmdid -> msg) * list ev * list cmdid) : bool := let '(_, cres, log, expected) := x in "
            "started_once log && results_once cres log && (match sub_multiset (hands log) expected with Some [] => true | _ => false end) && updates_ok log.",
            "Definition bad := map (fun x => fst (fst (fst x))) (filter (fun x => negb (row_ok x)) rows)."]
    bad, _ = C.coq_eval_sharded("cases_C02", PRE, rows, rows_def, body, "bad", shard=100)
    res.oblige("Spec on real logs (Coq: Spec.ConcSpec.started_once / results_once; invoked = returned leaves as multisets), %d runs" % len(cases), not bad,
               [cases[i]["triggers"] for i in bad[:1]])
    res.oblige("Spec on real logs: exactly one invocation per returned command, off the loop goroutine; nil and BatchMsg never reach Update; a blocked command delays no other result nor the exit",
               not py_bad, py_bad[:2])
    found = False
    for i, c, r in norun[:1]:
        res.violation("C02:blocked-by-command", "a command that does not return delayed message processing or the exit (the script stalled at step %s, Run did not return)" % r.get("script_timeout"),
                      {"case": c, "result": P.summarize(r)})
        found = True
    for i, pr in py_bad[:1]:
        res.violation("C02:%s" % pr[0][0], pr[0][1], {"case": {k: v for k, v in cases[i].items()}, "problems": pr[:5]})
        found = True
    if not found:
        for i in bad[:1]:
            res.violation("C02:log", "the command log of a real run violates started_once / results_once / invoked-equals-returned",
                          {"case": cases[i], "events": [(e["ev"], e.get("id"), e.get("key")) for e in results[i]["events"] if e["ev"] in ("CmdStart", "CmdEnd", "UpdateBegin")]})
            found = True
    if not found and not res.violations and (not proofs_ok or not tie_ok):
        res.violation("C02:obligation", "proof obligation or tie no longer checks (%s); the Spec held on all %d real logs" % (broken, len(cases)),
                      {"broken": broken, "searched": "%d runs" % len(cases)}, found_input=False)
    nleaves = [len(expected_leaves(c)) for c in cases]
    res.coverage["input_distribution"] = {
        "programs": len(cases), "leaves_total": sum(nleaves), "max_leaves": max(nleaves),
        "blocking_gate": sum(1 for c in cases for v in c["leaves"].values() if v["block"] == "gate:g"),
        "blocking_forever": sum(1 for c in cases for v in c["leaves"].values() if v["block"] == "forever"),
        "nil_results": sum(1 for c in cases for v in c["leaves"].values() if v["ret"] is None),
        "scratch_buffer_models": sum(1 for c in cases if c["reuse"]),
    }
    res.coverage["traces_validated_against_impl"] = len(cases)
    res.samples = [{"init": c["init"], "triggers": len(c["triggers"])} for c in cases[:3]]
    return res.finish(rule="random command trees (depth <= 4, nil entries, empty and single-element batches) from Init and Update, leaves returning a message or nil, blocking on a gate or forever; models that refill one scratch []Cmd; distinct = tree shapes",
                      trusted_extra=TRUSTED)


# the shapes themselves are frozen in coq/theories/RefShapes.v (alpha-normalised by the translator)

def tie_batch(res):
    pre = ("From Coq Require Import List Bool String.\nImport ListNotations.\nOpen Scope string_scope.\nFrom BT Require Model.GenTypes Model.SkelTie.\nFrom BTGen Require Signals ChanOps.\n")
    body = ['Definition init_forwarded := forallb (fun c => negb (fst c =? "Run")) ChanOps.send_calls && existsb (fun o => (GenTypes.co_func o =? "Run") && (GenTypes.co_chan o =? "cmds")) ChanOps.chanops.',
            'Definition t := (init_forwarded, SkelTie.shapes_ok_for ["Batch"], SkelTie.shapes_ok_for ["handleCommands"], SkelTie.shapes_ok_for ["eventLoop:BatchMsg"; "eventLoop:sequenceMsg"]).']
    vals, _ = C.coq_eval("cases_C02_tie", pre, body, ["t"], timeout=300)
    flags = [x == "true" for x in __import__("re").findall(r'true|false', vals["t"])]
    ok = all(flags) and len(flags) == 4
    res.oblige("tie (K1): the Init command is forwarded to the dispatcher (not run by Run's goroutine); commands.go Batch, handleCommands and the BatchMsg case of eventLoop have the shapes the model mirrors", ok, flags)
    return ok


def replay(res, path):
    d = json.load(open(path))
    c = d.get("case")
    if not c:
        raise C.Fail("replay file has no case")
    c["triggers"] = {int(k): v for k, v in c["triggers"].items()}
    C.build_harness()
    results, _ = P.run_scenarios("C02_replay", scenarios([c]))
    print("problems:", analyse(c, results[0]))
    res.oblige("replayed", True)
    return res.finish(rule="replay", trusted_extra=TRUSTED)
