"""C03 — Sequence runs its commands strictly one after another, in order."""
import json
import os
import random

from .. import common as C
from .. import program as P
from . import c01

PROPS = ["C03"]
TRUSTED = c01.TRUSTED[:2] + [
    "the sequenceMsg case of eventLoop is tied by its shape (gen/Signals.v: one goroutine per sequence, cmd() then Send, an errgroup per batch result, g.Wait())",
    "on real runs the moment a message is taken by the loop is not observable: the receipt is bracketed by the callback intervals of the loop goroutine (a receipt cannot happen inside a callback)",
]
PRE = c01.PRE
# shapes frozen in coq/theories/RefShapes.v (alpha-normalised by the translator)


def gen(tier, rnd):
    cases = []
    n = 50 if tier == "quick" else 1500
    for c in range(n):
        nid = [100]

        def leaf(ret=True, sleep=None, block=None):
            i = nid[0]
            nid[0] += 1
            return {"id": i, "ret": (5000 + i) if ret else None, "sleep_us": rnd.choice([0, 50, 200, 800]) if sleep is None else sleep, "block": block}
        elems = []
        for _ in range(rnd.choice([1, 2, 3, 5, 8])):
            x = rnd.random()
            if x < 0.15:
                elems.append(None)                                   # nil entry
            elif x < 0.30:
                elems.append({"leaf": leaf(ret=False)})              # nil result
            elif x < 0.45:
                elems.append({"batch": [leaf() for _ in range(rnd.choice([2, 3, 4]))]})
            elif x < 0.55:
                # the element returns a BatchMsg literal with nil entries (not built by tea.Batch, which would drop them)
                elems.append({"batch": [leaf() for _ in range(rnd.choice([1, 2, 3]))], "raw": leaf(ret=False)["id"]})
            else:
                elems.append({"leaf": leaf()})
        paused = rnd.random() < 0.35
        if paused:
            # the loop is held inside an unrelated Update while an element finishes: the next must not start
            kind = rnd.choice(["plain", "batch", "batch-first"])
            if kind == "plain":
                elems = [{"leaf": leaf(block="gate:g1", sleep=0)}, {"leaf": leaf(sleep=0)}] + elems[:2]
            elif kind == "batch":
                elems = [{"batch": [leaf(block="gate:g1", sleep=0), leaf(sleep=0)]}, {"leaf": leaf(sleep=0)}] + elems[:2]
            else:
                # an earlier batch in the same sequence, then a batch whose members finish while the loop is busy
                elems = [{"batch": [leaf(sleep=0), leaf(sleep=0)]}, {"batch": [leaf(block="gate:g1", sleep=0), leaf(block="gate:g1", sleep=0)]}, {"leaf": leaf(sleep=0)}]
        wide = (not paused) and (c % 9 == 4 or rnd.random() < 0.08)
        if wide:
            # a batch wider than any plausible worker-pool size inside the sequence; its first members return at once,
            # the later ones are slow: the element after it must still wait for every one of their messages
            elems = [{"batch": [leaf(sleep=0) for _ in range(8)] + [leaf(sleep=30000) for _ in range(rnd.choice([1, 4, 12, 25]))]}, {"leaf": leaf(sleep=0)}] + elems[:1]
        # a Sequence command stored in the model and returned again on a later Update (same command value, twice)
        repeat = (not paused) and (not wide) and rnd.random() < 0.3
        if repeat and not any(e is None for e in elems[:-1]):
            elems = elems[:1] + [None] + elems[1:] + [{"leaf": leaf()}]
        # some results are messages whose type implements error (a message like any other), and in some programs a filter
        # drops the result of one element: the elements after it run all the same
        leaves_all = [x for e in elems if e for x in ([e["leaf"]] if "leaf" in e else e["batch"])]
        for x in leaves_all:
            x["errret"] = x["ret"] is not None and rnd.random() < 0.25
        with_ret = [x for x in leaves_all[:-1] if x["ret"] is not None]
        dropped = rnd.choice(with_ret)["ret"] if (with_ret and not paused and rnd.random() < 0.3) else None
        cases.append({"elems": elems, "paused": paused, "traffic": rnd.choice([0, 1, 3]), "gomaxprocs": rnd.choice([0, 0, 1, 4, 16]), "dropped": dropped,
                      "repeat": 2 if repeat else 1, "wide": wide,
                      # how long the loop stays inside the unrelated Update after the element finished (a hand-over that
                      # stops waiting for the loop after some time-out shows with the long one)
                      "hold_us": 150000 if c % 5 == 2 else 25000})
    return cases


def spec_of(lf):
    ret = None
    if lf["ret"] is not None:
        ret = P.B("errmsg", w=lf["ret"]) if lf.get("errret") else P.U(lf["ret"])
    return P.cmd(lf["id"], ret=ret, sleep_us=lf["sleep_us"], block=lf["block"])


def result_key(c, ret):
    for e in c["elems"]:
        if e:
            for x in ([e["leaf"]] if "leaf" in e else e["batch"]):
                if x["ret"] == ret:
                    return ("err:%d" if x.get("errret") else "u:%d") % ret
    return "u:%d" % ret


def scenarios(cases):
    scs = []
    for i, c in enumerate(cases):
        seq_elems = []
        for e in c["elems"]:
            if e is None:
                seq_elems.append(None)
            elif "leaf" in e:
                seq_elems.append(spec_of(e["leaf"]))
            elif e.get("raw"):
                seq_elems.append(P.cmd(e["raw"], ret=P.B("batch", cmds=[None] + [spec_of(x) for x in e["batch"]] + [None])))
            else:
                seq_elems.append({"id": 0, "batch": [spec_of(x) for x in e["batch"]]})
        upd = {"u:1": {"cmd": {"id": 0, "seq": seq_elems, "cache": c.get("repeat", 1) > 1}}}
        script = [P.W("started")]
        senders = [[P.U(2000 + 100 * s + k) for k in range(6)] for s in range(c["traffic"])]
        if c["paused"]:
            upd["u:77"] = {"pause": True}
            script += [P.DO("send", msg=P.U(1)), P.DO("sleep", us=3000), P.DO("go-send", msg=P.U(77)), P.W("pause:update:u:77"),
                       P.DO("gate", name="g1"), P.DO("sleep", us=c.get("hold_us", 25000)), P.DO("release", label="update:u:77", all=True)]
        else:
            script += [P.DO("send", msg=P.U(1))]
            if c.get("repeat", 1) > 1:
                script += [P.DO("sleep", us=8000), P.W("idle"), P.DO("sleep", us=3000), P.W("idle"), P.DO("send", msg=P.U(1))]
        script += [P.DO("sleep", us=5000), P.W("idle"), P.DO("sleep", us=3000), P.W("idle"), P.DO("quit"), P.W("returned")]
        o = {"fps": 120}
        if c.get("dropped") is not None:
            o["filter"] = {"drop": [result_key(c, c["dropped"])]}
        s = P.scenario(i, script, opts=o, update=upd, senders=senders, watchdog_ms=6000)
        if c["gomaxprocs"]:
            s["gomaxprocs"] = c["gomaxprocs"]
        else:
            s["parallel_ok"] = True
        scs.append(s)
    return scs


def analyse(c, r):
    probs = []
    evs = [dict(e, key="u:" + e["key"][4:]) if e.get("key", "").startswith("err:") else e for e in r["events"]]
    start = {e["id"]: e["c"] for e in evs if e["ev"] == "CmdStart"}
    end = {e["id"]: e["c"] for e in evs if e["ev"] == "CmdEnd"}
    updc = {int(e["key"][2:]): e["c"] for e in evs if e["ev"] == "UpdateBegin" and e.get("key", "").startswith("u:")}
    nstart = {}
    for e in evs:
        if e["ev"] == "CmdStart":
            nstart[e["id"]] = nstart.get(e["id"], 0) + 1
    # callback intervals of the loop goroutine
    ivs, opened = [], None
    for e in evs:
        if e["ev"] in ("UpdateBegin", "ViewBegin", "FilterBegin"):
            opened = e["c"]
        elif e["ev"] in ("UpdateEnd", "ViewEnd", "FilterEnd") and opened is not None:
            ivs.append((opened, e["c"]))
            opened = None
    elems = [e for e in c["elems"] if e is not None]
    rep = c.get("repeat", 1)
    if rep > 1:
        # the same Sequence command dispatched `rep` times: every dispatch runs every element once and delivers its message
        nupd = {}
        for e in evs:
            if e["ev"] == "UpdateBegin" and e.get("key", "").startswith("u:"):
                nupd[int(e["key"][2:])] = nupd.get(int(e["key"][2:]), 0) + 1
        for e in elems:
            for x in ([e["leaf"]] if "leaf" in e else e["batch"]):
                if nstart.get(x["id"], 0) != rep:
                    probs.append(("repeat-starts", "a stored Sequence command was dispatched %d times; its command %d was started %d times" % (rep, x["id"], nstart.get(x["id"], 0))))
                if x["ret"] is not None and nupd.get(x["ret"], 0) != (0 if x["ret"] == c.get("dropped") else rep):
                    probs.append(("repeat-messages", "a stored Sequence command was dispatched %d times; the message of its command %d reached Update %d times" % (rep, x["id"], nupd.get(x["ret"], 0))))
        return probs
    prev_done = None       # clock after which the next element may start
    prev_ids = None
    last_upd = -1
    for e in elems:
        ids = [e["leaf"]["id"]] if "leaf" in e else [x["id"] for x in e["batch"]]
        for i in ids:
            if nstart.get(i, 0) != 1:
                probs.append(("stalled" if nstart.get(i, 0) == 0 else "twice", "sequence command %d was started %d times" % (i, nstart.get(i, 0))))
        if any(i not in start for i in ids):
            break
        first_start = min(start[i] for i in ids)
        if prev_done is not None:
            if first_start < prev_done:
                probs.append(("concurrent", "command(s) %s started before the previous element %s had finished" % (ids, prev_ids)))
            else:
                # the previous element's message(s) must have been taken by the loop in between: impossible if the loop was
                # inside one callback from before the previous element ended until after this one started
                for b, en in ivs:
                    if b < prev_done and en > first_start:
                        probs.append(("before-receipt", "command(s) %s started while the event loop was still inside the callback it was in when the previous element %s finished: its message cannot have been received" % (ids, prev_ids)))
                        break
        if any(i not in end for i in ids):
            break
        prev_done = max(end[i] for i in ids)
        prev_ids = ids
        # Update order: this element's messages come after every message of earlier elements
        rets = [x["ret"] for x in ([e["leaf"]] if "leaf" in e else e["batch"]) if x["ret"] is not None]
        cl = [updc[t] for t in rets if t in updc]
        if cl:
            if min(cl) < last_upd:
                probs.append(("update-order", "messages of sequence elements reached Update out of sequence order"))
            last_upd = max(cl)
        missing = [t for t in rets if t not in updc and t != c.get("dropped")]
        if c.get("dropped") in rets and c.get("dropped") in updc:
            probs.append(("filter", "the filter dropped message %s of a sequence element, yet it reached Update" % c.get("dropped")))
        if missing:
            probs.append(("lost", "messages %s of a sequence element never reached Update" % missing))
    return probs


def coq_row(i, c, r):
    """projected log for Spec.ConcSpec.sequences_ok: the receipt of a message is placed right after the command's end
    (its earliest possible position; the true position is bracketed by the python interval check)"""
    evs = r["events"]
    items = ["ERecv (WSender 0) (MSeq [])", "EUpdate (MSeq ELEMS) None"]
    leaf_of = {}
    member_of = {}
    elems_coq = []
    cres = {}
    for e in c["elems"]:
        if e is None:
            elems_coq.append("None")
        elif "leaf" in e:
            lf = e["leaf"]
            elems_coq.append("Some %d" % lf["id"])
            leaf_of[lf["id"]] = lf
            cres[lf["id"]] = "MUser %d" % lf["ret"] if lf["ret"] is not None else "MNil"
        else:
            bid = 900 + len(elems_coq)
            elems_coq.append("Some %d" % bid)
            cres[bid] = "MBatch [%s]" % "; ".join("Some %d" % x["id"] for x in e["batch"])
            for j, x in enumerate(e["batch"]):
                member_of[x["id"]] = (bid, j, x)
                cres[x["id"]] = "MUser %d" % x["ret"] if x["ret"] is not None else "MNil"
    started_batches = set()
    for e in evs:
        if e["ev"] == "CmdStart" and e["id"] in leaf_of:
            items.append("EStart (WSeq 0) %d" % e["id"])
        elif e["ev"] == "CmdEnd" and e["id"] in leaf_of:
            lf = leaf_of[e["id"]]
            items.append("EEnd (WSeq 0) %d" % e["id"])
            items.append("ERecv (WSeq 0) (%s)" % cres[e["id"]])
        elif e["ev"] == "CmdStart" and e["id"] in member_of:
            bid, j, x = member_of[e["id"]]
            if bid not in started_batches:
                # the batch command itself (tea.Batch's closure) ran and returned just before its first member started
                started_batches.add(bid)
                items.append("EStart (WSeq 0) %d" % bid)
                items.append("EEnd (WSeq 0) %d" % bid)
                n = sum(1 for v in member_of.values() if v[0] == bid)
                for jj in range(n):
                    cid = [k for k, v in member_of.items() if v[0] == bid and v[1] == jj][0]
                    items.append("EStart (WGrp 0 %d) %d" % (jj, cid))
        elif e["ev"] == "CmdEnd" and e["id"] in member_of:
            bid, j, x = member_of[e["id"]]
            items.append("EEnd (WGrp 0 %d) %d" % (j, e["id"]))
            items.append("ERecv (WGrp 0 %d) (%s)" % (j, cres[e["id"]]))
    log = "[" + "; ".join(items).replace("MSeq ELEMS", "MSeq [%s]" % "; ".join(elems_coq)) + "]"
    cres_f = "(fun c => match c with %s | _ => MNil end)" % " | ".join("%d => %s" % kv for kv in cres.items()) if cres else "(fun _ => MNil)"
    return "(%d, %s, %s)" % (i, cres_f, log)


def tie_seq(res):
    pre = ("From Coq Require Import List Bool String.\nImport ListNotations.\nOpen Scope string_scope.\nFrom BT Require Model.SkelTie.\nFrom BTGen Require Signals.\n")
    body = ['Definition t := (SkelTie.shapes_ok_for ["eventLoop:sequenceMsg"], SkelTie.shapes_ok_for ["Sequence"]).']
    vals, _ = C.coq_eval("cases_C03_tie", pre, body, ["t"], timeout=300)
    flags = [x == "true" for x in __import__("re").findall(r'true|false', vals["t"])]
    ok = all(flags) and len(flags) == 2
    res.oblige("tie (K1): the sequenceMsg case of eventLoop and commands.go Sequence have the shapes the model mirrors", ok, flags)
    return ok


def run(res, tier, seed):
    rnd = random.Random(seed * 7919 + 3)
    have_props = os.path.exists(os.path.join(C.COQ, "theories", "Props", "C03.v"))
    proofs_ok, broken = C.proof_obligations(res, PROPS if have_props else [], extra_targets=["theories/Spec/ConcSpec.vo"])
    if not have_props:
        res.oblige("theorems:Props/C03.v present", False, "the proofs of the concurrent model are not in this revision")
    tie_ok = c01.tie(res) and tie_seq(res)
    okb, out = C.build_harness()
    if not okb:
        raise C.Fail("harness build failed (does /repo still compile with -tags verif?):\n" + out[-3000:])
    cases = gen(tier, rnd)
    results, dt = P.run_scenarios("C03", scenarios(cases), timeout=3000)
    mach = [(c, r) for c, r in zip(cases, results) if P.machinery_problem(r) or not r["run_returned"]]
    res.oblige("harness: every scenario ran as scripted (%d)" % len(cases), not mach, [P.summarize(r) for c, r in mach[:1]])
    py_bad, rows = [], []
    for i, (c, r) in enumerate(zip(cases, results)):
        res.count(json.dumps(c["elems"], sort_keys=True) + str(c["paused"]))
        pr = analyse(c, r)
        if pr:
            py_bad.append((i, pr))
        if c.get("repeat", 1) == 1:
            rows.append(coq_row(i, c, r))
    rows_def = "Definition rows : list (nat * (cmdid -> msg) * list ev) := [%s]."
    body = ["Definition bad := map (fun x => fst (fst x)) (filter (fun x => negb (sequences_ok (snd (fst x)) (snd x))) rows)."]
    bad, _ = C.coq_eval_sharded("cases_C03", PRE, rows, rows_def, body, "bad", shard=100)
    res.oblige("Spec on real logs (Coq: Spec.ConcSpec.sequences_ok on the projected start/end log: element order, nil entries skipped, a batch's members all started after it and all finished before the next element), %d runs" % len(cases),
               not bad, [cases[i]["elems"] for i in bad[:1]])
    res.oblige("Spec on real logs: each element started once, after the previous finished AND after the loop could have received its message(s); messages reach Update in sequence order; nil entries/results do not stall",
               not py_bad, py_bad[:2])
    found = False
    for i, pr in py_bad[:1]:
        res.violation("C03:%s" % pr[0][0], pr[0][1], {"case": cases[i], "problems": pr[:5],
                                                      "events": [(e["c"], e["ev"], e.get("id"), e.get("key")) for e in results[i]["events"] if e["ev"] in ("CmdStart", "CmdEnd", "UpdateBegin", "UpdateEnd")]})
        found = True
    if not found:
        for i in bad[:1]:
            res.violation("C03:pattern", "the start/end log of a sequence does not follow the one-after-another pattern", {"case": cases[i]})
            found = True
    if not found and not res.violations and (not proofs_ok or not tie_ok):
        res.violation("C03:obligation", "proof obligation or tie no longer checks (%s); the Spec held on all %d real logs" % (broken, len(cases)),
                      {"broken": broken, "searched": "%d runs" % len(cases)}, found_input=False)
    res.coverage["input_distribution"] = {
        "sequences": len(cases), "paused_loop": sum(1 for c in cases if c["paused"]),
        "lengths": {str(k): sum(1 for c in cases if len(c["elems"]) == k) for k in sorted({len(c["elems"]) for c in cases})},
        "nil_entries": sum(1 for c in cases for e in c["elems"] if e is None),
        "nil_results": sum(1 for c in cases for e in c["elems"] if e and "leaf" in e and e["leaf"]["ret"] is None),
        "batch_elements": sum(1 for c in cases for e in c["elems"] if e and "batch" in e),
        "with_traffic": sum(1 for c in cases if c["traffic"]), "stored_and_dispatched_twice": sum(1 for c in cases if c.get("repeat", 1) > 1),
        "wide_batch_in_sequence": sum(1 for c in cases if c.get("wide")), "loop_held_150ms": sum(1 for c in cases if c["paused"] and c.get("hold_us") == 150000),
    }
    res.coverage["traces_validated_against_impl"] = len(cases)
    res.samples = [{"elems": c["elems"], "paused": c["paused"]} for c in cases[:3]]
    return res.finish(rule="random sequences (plain commands, batches of plain commands, nil entries, nil results, random durations) with unrelated traffic from senders; variants where the loop is held inside an unrelated Update while an element finishes; distinct = sequence shape",
                      trusted_extra=TRUSTED)


def replay(res, path):
    d = json.load(open(path))
    c = d.get("case")
    if not c:
        raise C.Fail("replay file has no case")
    C.build_harness()
    results, _ = P.run_scenarios("C03_replay", scenarios([c]))
    print("problems:", analyse(c, results[0]))
    res.oblige("replayed", True)
    return res.finish(rule="replay", trusted_extra=TRUSTED)
