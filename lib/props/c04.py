"""C04 — Run always returns, with the right error, whatever is in flight."""
import json
import random

from .. import common as C
from .. import lifecycle as L
from .. import program as P

PROPS = ["C04"]
OBL = ["no-dead-end", "error-class"]

TRUSTED = [
    "control skeleton Model/Skel.v: hand-written mirror of tea.go Run/eventLoop/shutdown/handleSignals/handleCommands, tty.go readLoop/waitForReadLoop, standard_renderer.go start/stop/kill/listen; its guards are computed from gen/ChanOps.v, gen/Lifecycle.v, gen/Dispatch.v, gen/Signals.v (Model/SkelTie.v)",
    "reflection: the reachable set and the rank table are certificates computed by vm_compute and accepted only by the kernel-checked closure/rank checks (Proof/SkelCert.v)",
    "assumed (Go runtime): an enabled runtime thread eventually runs; select picks only ready cases; user callbacks in progress return",
    "outside the model: Kill racing the first lines of Run (unsynchronised p.renderer), unrecovered panics (sequence elements, WithoutCatchPanics), job-control suspend",
]


def matrix(tier, rnd):
    scs, metas = [], []

    def add(x):
        if x is None:
            return
        s, m = x
        s["id"] = len(scs)
        scs.append(s)
        metas.append(m)
    pend = ["none", "all"] if tier == "quick" else P.PENDING
    for cause in P.CAUSES:
        for point in P.POINTS:
            for pending in pend:
                add(P.lifecycle_scenario(0, cause, point, pending, after_api=False))
    add(P.lifecycle_scenario(0, "cancel", "before-run", "none"))
    add(P.lifecycle_scenario(0, "kill", "before-run", "none"))
    # the loop stays busy for 300 ms after the cause was issued (a request that gives up waiting for the loop is lost)
    for cause in ("quit", "quitapi", "interrupt", "readerr", "cmdpanic"):
        for point in ("update", "view", "filter"):
            x = P.lifecycle_scenario(0, cause, point, "none", hold_us=300000)
            if x:
                x[1]["pending"] = "held-300ms"
                add(x)
    for cause in ("quit", "kill", "cancel", "interrupt"):
        for point in ("idle", "update"):
            add(P.lifecycle_scenario(0, cause, point, "flood"))      # 300 commands that never return are in flight
    # two causes: a message-borne cause parked behind a busy loop, then an external one
    for first in ("quit", "interrupt", "cmdpanic"):
        for second in ("kill", "cancel"):
            for point in ("update", "view", "filter", "filterdrop", "batch", "cmdsend"):
                add(P.lifecycle_scenario(0, first, point, "senders", second=second))
    # signals (one program per child process): alone and racing Kill / cancellation
    sig_points = ("idle", "update", "batch") if tier == "quick" else ("idle", "update", "view", "filter", "batch", "cmdsend")
    for sig in ("sigint", "sigterm"):
        for point in sig_points:
            add(P.lifecycle_scenario(0, sig, point, "none"))
            if point != "idle":
                for second in ("kill", "cancel"):
                    add(P.lifecycle_scenario(0, sig, point, "senders", second=second))
    # taking the terminal back after an Exec fails (the external program closed the input it was handed): the program is
    # still a program - every cause ends it with its own error
    for cause in ("sigint", "sigterm", "quit", "kill", "interrupt"):
        o = {"fps": 120}
        script = [P.W("started"), P.W("idle"), P.DO("send", msg=P.B("exec", close_in=True, cb=True)), P.DO("sleep", us=80000), P.W("idle")]
        if cause in ("sigint", "sigterm"):
            o["nosighandler"] = False
            script.append(P.DO("signal", sig="int" if cause == "sigint" else "term"))
        elif cause == "kill":
            script.append(P.DO("kill"))
        else:
            script.append(P.DO("go-send", msg=P.B(cause)))
        script.append(P.W("returned"))
        s = P.scenario(0, script, opts=o, inp={"kind": "pipe"}, watchdog_ms=4000)
        if cause in ("sigint", "sigterm"):
            s["isolate"] = True
        else:
            s["parallel_ok"] = True
        add((s, {"cause": cause, "point": "after-failed-restore", "pending": "none", "causes": [cause]}))
    # RestoreTerminal while the read loop of an earlier RestoreTerminal has not started to run yet (one processor, the two
    # calls without a pause: an application restoring a terminal that an Exec had taken back meanwhile) - F14
    for cause in ("quit", "kill"):
        for kind in ("pipe", "ptyin"):
            script = [P.W("started"), P.W("idle"), P.DO("release-terminal"), P.DO("restore-terminal", n=2), P.DO("sleep", us=30000),
                      P.DO("send", msg=P.U(5)), P.W("idle"), P.DO("quit") if cause == "quit" else P.DO("kill"), P.W("returned")]
            s = P.scenario(0, script, opts={"fps": 120}, inp={"kind": kind}, watchdog_ms=4000, isolate=True, gomaxprocs=1)
            add((s, {"cause": cause, "point": "after-double-restore", "pending": "none", "causes": [cause]}))
    # Kill runs the shutdown and so does Run on its way out: nothing the program owns may be closed twice (F22: the input
    # reader's epoll descriptor and pipe were; the second close hits whatever got those descriptor numbers meanwhile - here
    # a canary of the harness that keeps the lowest free number occupied)
    for cause in ("kill", "kill", "quit", "cancel", "kill"):
        script = [P.W("started"), P.W("idle"), P.DO("fd-canary", us=400000), P.DO("sleep", us=30000)]
        script += [{"kill": P.DO("kill"), "quit": P.DO("quit"), "cancel": P.DO("cancel")}[cause], P.W("returned"), P.DO("sleep", us=60000)]
        s = P.scenario(0, script, opts={"fps": 120}, inp={"kind": "pipe"}, watchdog_ms=4000, isolate=True, ctx=(cause == "cancel"))
        add((s, {"cause": cause, "point": "idle:descriptors", "pending": "none", "causes": [cause], "canary": True}))
    # an input message read but undeliverable while a cause strikes (the read loop gives up with a context error)
    for rep in range(10 if tier == "quick" else 60):
        for cause in ("cancel", "kill"):
            for point in ("view", "filterdrop"):
                add(P.lifecycle_scenario(0, cause, point, "input"))
    # EOF alone does not end the program
    for k in range(2):
        s = P.scenario(0, [P.W("started"), P.DO("close-input"), P.DO("sleep", us=20000), P.DO("send", msg=P.U(1)), P.W("idle"),
                           P.DO("send", msg=P.U(2)), P.W("idle"), P.DO("quit"), P.W("returned")],
                       inp={"kind": "reader" if k else "pipe", "end": "eof", "bytes": [120]}, parallel_ok=True)
        add((s, {"cause": "quit", "point": "idle", "pending": "eof", "causes": ["quit"], "eof": True}))
    # ... also when the input ends while the reader is holding bytes back: the last read filled its 256-byte buffer and ends
    # in something that may be incomplete (a lone ESC, the start of a CSI, half a UTF-8 character), or fills it exactly
    for tail in ([27], [195], [27, 91], [27, 91, 49], [97]):
        for kind in ("pipe", "reader"):
            data = [97] * (256 - len(tail)) + tail
            s = P.scenario(0, [P.W("started"), P.DO("sleep", us=30000), P.DO("send", msg=P.U(1)), P.W("idle"),
                               P.DO("send", msg=P.U(2)), P.W("idle"), P.DO("quit"), P.W("returned")],
                           inp={"kind": kind, "end": "eof", "bytes": data}, parallel_ok=True)
            add((s, {"cause": "quit", "point": "idle", "pending": "eof-held:%s" % tail, "causes": ["quit"], "eof": True}))
    if tier != "quick":
        # scheduler variety: the racy combinations again under different GOMAXPROCS and yields
        for rep in range(6):
            for first in ("quit", "interrupt", "cancel", "kill"):
                for point in ("update", "batch", "cmdsend", "view"):
                    x = P.lifecycle_scenario(0, first, point, rnd.choice(P.PENDING), second=rnd.choice([None, "kill", "cancel"]) if first in ("quit", "interrupt") else None)
                    if x:
                        x[0].pop("parallel_ok", None)
                        x[0]["gomaxprocs"] = rnd.choice([1, 2, 4, 16])
                        add(x)
    return scs, metas


def judge(res, metas, results, proofs_ok, broken, cex):
    pairs = list(zip(metas, results))
    for m, r in pairs:
        res.count((m["cause"], m["point"], m["pending"], tuple(m["causes"])))
    bad_ids = L.eval_outcomes(res, "C04", pairs)
    mach = [(m, r) for m, r in pairs if P.machinery_problem(r)]
    res.oblige("harness: every scenario ran as scripted (%d scenarios)" % len(pairs), not mach,
               [(m["cause"], m["point"], P.machinery_problem(r)) for m, r in mach[:3]])
    bad = [(m, r) for m, r in pairs if r["id"] in bad_ids and not P.machinery_problem(r)]
    eof_bad = [(m, r) for m, r in pairs if m.get("eof") and not P.machinery_problem(r) and
               (r["run_err"] != "nil" or not {"u:1", "u:2"} <= {e.get("key") for e in r["events"] if e["ev"] == "UpdateBegin"})]
    res.oblige("Spec on real runs (Coq: Spec.LifeSpec.outcome_ok): Run returned with the error class of a cause that struck, %d runs" % len(pairs),
               not bad, [(m["cause"], m["point"], m["pending"], r["run_returned"], r["run_err"]) for m, r in bad[:4]])
    res.oblige("Spec on real runs: end of input alone does not end the program", not eof_bad)
    can = [(m, r) for m, r in pairs if m.get("canary") and not P.machinery_problem(r)]
    stolen = [(m, r) for m, r in can if r.get("fd_stolen")]
    res.oblige("Spec on real runs: the program closes no descriptor twice on its way out (%d runs, %d canary descriptors watched)" %
               (len(can), sum(r.get("fd_canaries", 0) for _, r in can)), not stolen and all(r.get("fd_canaries", 0) > 50 for _, r in can),
               [(m["cause"], r.get("fd_stolen"), r.get("fd_canaries")) for m, r in (stolen or can)[:3]])
    found = False
    for m, r in stolen[:1]:
        res.violation("C04:descriptor-closed-twice:%s" % m["cause"],
                      "while the program ended (%s) %d descriptor(s) that the harness had just opened were closed by somebody else: the program closed descriptor numbers it no longer owned" % (m["cause"], r["fd_stolen"]),
                      {"scenario_meta": m, "result": P.summarize(r)})
        found = True
    for m, r in (bad[:1] + eof_bad[:1]):
        hang = not r["run_returned"]
        sig = "C04:%s:%s@%s" % ("hang" if hang else "error", "+".join(m["causes"]), m["point"])
        what = ("Run did not return within the watchdog after %s struck at %s (pending: %s)" % ("+".join(m["causes"]), m["point"], m["pending"])) if hang else \
               ("Run returned %r after %s at %s; the property demands the class of one of these causes" % (r["run_err"], "+".join(m["causes"]), m["point"]))
        if r.get("crashed"):
            sig = "C04:crash:%s@%s" % ("+".join(m["causes"]), m["point"])
            what = "the process died instead of Run returning (%s at %s): %s" % ("+".join(m["causes"]), m["point"], (r.get("crash_text") or "")[:300])
        if m.get("eof"):
            sig, what = "C04:eof", "the program ended (or stopped processing messages) after end of input alone"
        res.violation(sig, what, {"scenario_meta": m, "result": P.summarize(r), "model_counterexamples": cex})
        found = True
    if not found and not proofs_ok:
        res.violation("C04:obligation", "proof obligation no longer checks (%s); the model-level search %s; all %d real runs returned with the right error" %
                      (broken, "found a skeleton path: " + "; ".join(k for k, v in cex.items() if v) if any(cex.values()) else "found no violating skeleton state", len(pairs)),
                      {"broken": broken, "model_counterexamples": cex, "searched": "%d real scenarios" % len(pairs)}, found_input=False)
    res.coverage["input_distribution"] = {
        "causes": {c: sum(1 for m in metas if c in m["causes"]) for c in sorted({c for m in metas for c in m["causes"]})},
        "points": {p: sum(1 for m in metas if m["point"] == p) for p in sorted({m["point"] for m in metas})},
        "pending": {p: sum(1 for m in metas if m["pending"] == p) for p in sorted({m["pending"] for m in metas})},
        "error_classes_seen": {e: sum(1 for r in results if r["run_err"].split(":")[0] == e) for e in sorted({r["run_err"].split(":")[0] for r in results})},
    }
    res.coverage["traces_validated_against_impl"] = len(pairs)
    res.samples = [{"cause": m["causes"], "point": m["point"], "pending": m["pending"], "run_err": r["run_err"], "wall_ms": r["wall_ms"]} for m, r in pairs[:8]]


def run(res, tier, seed):
    rnd = random.Random(seed * 7919 + 4)
    proofs_ok, broken, cex = L.skeleton_obligations(res, PROPS, OBL)
    okb, out = C.build_harness()
    if not okb:
        raise C.Fail("harness build failed (does /repo still compile with -tags verif?):\n" + out[-3000:])
    scs, metas = matrix(tier, rnd)
    results, dt = P.run_scenarios("C04", scs)
    judge(res, metas, results, proofs_ok, broken, cex)
    # the other direction of the correspondence: what the real programs did, the model can do
    stuck = L.trace_inclusion(res, "C04", list(zip(scs, metas, results)), 24 if tier == "quick" else 250)
    if stuck and not res.violations:
        sc, m, r, k = stuck[0]
        res.violation("C04:obligation:trace", "the callback sequence of a real run (%s at %s) is not a path of the control skeleton: the model cannot follow observation %d (%s)" %
                      ("+".join(m["causes"]), m["point"], k, (L.observations(sc, r)[1] + ["?"])[k]),
                      {"scenario": sc, "observations": L.observations(sc, r)[1]}, found_input=False)
    return res.finish(rule="cause (quit msg, Quit(), interrupt, Kill, ctx cancel, read error, panic in callback, panic in command, SIGINT, SIGTERM) x point (idle, inside Update/View/filter/Init, batch dispatch, command hand-off) x pending work (blocked senders, never-returning command, unread input); message-borne causes followed by Kill/cancel; EOF alone; distinct = distinct (cause, point, pending)",
                      trusted_extra=TRUSTED)


def replay(res, path):
    d = json.load(open(path))
    m = d.get("scenario_meta")
    if not m:
        raise C.Fail("replay file has no scenario: " + path)
    okb, out = C.build_harness()
    if not okb:
        raise C.Fail("harness build failed:\n" + out[-3000:])
    second = m["causes"][1] if len(m["causes"]) > 1 else None
    if m.get("eof"):
        raise C.Fail("replay of the EOF scenario: run ./check C04")
    x = P.lifecycle_scenario(0, m["cause"], m["point"], m["pending"], second=second)
    results, _ = P.run_scenarios("C04_replay", [x[0]])
    judge(res, [x[1]], results, True, None, {})
    print(json.dumps(P.summarize(results[0]), indent=1)[:4000])
    return res.finish(rule="replay of " + path, trusted_extra=TRUSTED)
