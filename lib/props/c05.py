"""C05 — the terminal is restored on every exit path."""
import json
import random

from .. import common as C
from .. import lifecycle as L
from .. import program as P

PROPS = ["C05", "C05_modes"]
OBL = ["restored-at-return", "no-dead-end"]
TRUSTED = [
    "control half: skeleton Model/Skel.v + guards from gen/ (restored_last is a ghost bit set by the Run thread's restoreTerminalState and cleared by any of its mode-affecting actions)",
    "mode half: Model/Lifecycle.v interprets the GENERATED call lists of restoreTerminalState / Run over the renderer model; Proof/ModesProofs.v: from any tracked state the restore resets every mode (both cursor-visibility conventions)",
    "terminal = Model/VT.v mode record (xterm private modes 25, 1049, 1002, 1003, 1006, 2004, 1004); termios is exercised on pseudo-terminals (handed in, and opened by the program in a child whose controlling terminal is a pty), not modelled",
    "reset-only sequences written concurrently by another shutdown caller (Kill, panicking command) are atomic under the renderer mutex (assumed)",
]

MODE_CMDS = ["enteralt", "exitalt", "mousecell", "mouseall", "mouseoff", "pasteon", "pasteoff", "focuson", "focusoff", "showcursor", "hidecursor", "clear"]


def rand_opts(rnd):
    o = {}
    if rnd.random() < 0.4:
        o["alt"] = True
    m = rnd.random()
    if m < 0.25:
        o["mouse"] = "cell"
    elif m < 0.5:
        o["mouse"] = "all"
    if rnd.random() < 0.4:
        o["nopaste"] = True
    if rnd.random() < 0.4:
        o["focus"] = True
    return o


def rand_history(rnd, o):
    n = rnd.choice([0, 1, 2, 3, 4, 6])
    h = []
    for _ in range(n):
        if rnd.random() < 0.12:
            h.append(P.B("exec", cb=rnd.random() < 0.5, ok=rnd.random() < 0.7))
        else:
            h.append(P.B(rnd.choice(MODE_CMDS)))
    # make the interesting combinations common: a mode switched on against the option, left on
    if o.get("nopaste") and rnd.random() < 0.6:
        h.append(P.B("pasteon"))
    if not o.get("focus") and rnd.random() < 0.3:
        h.append(P.B("focuson"))
    if not o.get("alt") and rnd.random() < 0.3:
        h.append(P.B("enteralt"))
    return h


def matrix(tier, rnd):
    scs, metas = [], []

    def add(x):
        if x is None:
            return
        s, m = x
        s["id"] = len(scs)
        scs.append(s)
        metas.append(m)
    n = 3 if tier == "quick" else 40
    for cause in P.CAUSES:
        for point in P.POINTS:
            for _ in range(n):
                o = rand_opts(rnd)
                add(P.lifecycle_scenario(0, cause, point, rnd.choice(["none", "none", "senders", "all"]), opts=o, modes_history=rand_history(rnd, o)))
    for _ in range(4 if tier == "quick" else 32):
        add(P.lifecycle_scenario(0, "cancel", "before-run", "none", opts=rand_opts(rnd)))
        add(P.lifecycle_scenario(0, "kill", "before-run", "none", opts=rand_opts(rnd)))
    # all 2^5 option subsets, quit / kill
    for bits in range(32):
        o = {}
        if bits & 1:
            o["alt"] = True
        if bits & 2:
            o["mouse"] = "cell"
        if bits & 4:
            o["mouse"] = "all" if not bits & 2 else "cell"
        if bits & 8:
            o["nopaste"] = True
        if bits & 16:
            o["focus"] = True
        for cause in ("quit", "kill"):
            add(P.lifecycle_scenario(0, cause, "idle", "none", opts=o, modes_history=rand_history(rnd, o)))
    # input on a real terminal device that hangs up before the exit: restoring the line discipline fails, the modes
    # must be reset all the same
    for _ in range(4 if tier == "quick" else 24):
        o = rand_opts(rnd)
        hist = [h for h in rand_history(rnd, o) if h.get("b") != "exec"]
        cause = rnd.choice(["quit", "kill"])
        script = [P.W("started"), P.W("idle")] + [P.DO("send", msg=m) for m in hist] + [P.W("idle"), P.DO("pty-hangup"), P.DO("sleep", us=20000),
                  P.DO("send", msg=P.U(3)), P.W("idle"), P.DO("quit") if cause == "quit" else P.DO("kill"), P.W("returned")]
        s = P.scenario(0, script, opts=o, inp={"kind": "ptyin"}, parallel_ok=True)
        add((s, {"cause": cause, "point": "idle:pty-hangup", "pending": "none", "causes": [cause], "opts": o, "modes_history": [m.get("b") for m in hist]}))
    # the line discipline (termios): input on a terminal device handed in by the application (pty), and a terminal the
    # program opens itself (WithInputTTY: the child process gets a pseudo-terminal as its controlling terminal)
    tcases = [("quit", "idle"), ("kill", "update"), ("cancel", "view"), ("interrupt", "idle"), ("panic", "init"), ("panic", "update"), ("panic", "view"), ("cmdpanic", "idle")]
    for k, (cause, point) in enumerate(tcases if tier == "quick" else tcases * 4):
        o = rand_opts(rnd)
        # every second history hands the terminal to an external command first (one that fails, one that succeeds)
        hist = [[], [P.B("exec", cb=True, ok=False)], [], [P.B("exec", cb=False, ok=True), P.B("exec", cb=True, ok=False)]][k % 4] if point != "init" else []
        x = P.lifecycle_scenario(0, cause, point, "none", opts=o, inp_override={"kind": "tty"}, isolate=True, modes_history=hist)
        if x:
            x[0]["ctty"] = True
            x[1]["termios"] = "input-tty"
            add(x)
        hist = [[P.B("exec", cb=True, ok=False)], [], [P.B("exec", cb=False, ok=True), P.B("exec", cb=True, ok=False)], []][k % 4] if point != "init" else []
        x = P.lifecycle_scenario(0, cause, point, "none", opts=o, inp_override={"kind": "ptyin"}, modes_history=hist)
        if x:
            x[1]["termios"] = "pty"
            add(x)
    # a transient output error earlier in the run (one frame is lost: its Write fails once with EAGAIN): the exit path
    # must still write the whole reset
    for k in range(6 if tier == "quick" else 48):
        o = rand_opts(rnd)
        hist = [h for h in rand_history(rnd, o) if h.get("b") != "exec"]
        cause = ["quit", "kill", "cancel", "interrupt"][k % 4]
        end = {"quit": P.DO("quit"), "kill": P.DO("kill"), "cancel": P.DO("cancel"), "interrupt": P.DO("go-send", msg=P.B("interrupt"))}[cause]
        script = [P.W("started"), P.W("idle"), P.DO("send", msg=P.U(1)), P.DO("sleep", us=30000), P.W("idle")] + [P.DO("send", msg=m) for m in hist] + \
                 [P.W("idle"), P.DO("send", msg=P.U(3)), P.DO("sleep", us=30000), P.W("idle"), end, P.W("returned")]
        s = P.scenario(0, script, opts=dict(o, fps=120), parallel_ok=True, out_fault={"match": "view 1", "times": 1}, ctx=(cause == "cancel"))
        add((s, {"cause": cause, "point": "idle:after-write-error", "pending": "none", "causes": [cause], "opts": o, "modes_history": [m.get("b") for m in hist]}))
    # start-up failure after the terminal was initialised: a regular file as input (epoll refuses it)
    for _ in range(4 if tier == "quick" else 32):
        o = rand_opts(rnd)
        s = P.scenario(0, [P.DO("run"), P.W("returned")], opts=o, inp={"kind": "file", "bytes": [97]}, parallel_ok=True)
        add((s, {"cause": "startfail", "point": "startup:file", "pending": "none", "causes": ["startfail"], "opts": o, "modes_history": []}))
    return scs, metas


def judge(res, metas, results, proofs_ok, broken, cex):
    pairs = list(zip(metas, results))
    for m, r in pairs:
        res.count((m["cause"], m["point"], json.dumps(m["opts"], sort_keys=True), tuple(m["modes_history"])))
    mach = [(m, r) for m, r in pairs if P.machinery_problem(r)]
    res.oblige("harness: every scenario ran as scripted (%d scenarios)" % len(pairs), not mach,
               [(m["cause"], m["point"], P.machinery_problem(r)) for m, r in mach[:3]])
    norun = [(m, r) for m, r in pairs if not r["run_returned"] and not P.machinery_problem(r)]
    res.oblige("real runs: Run returned in every scenario", not norun, [(m["cause"], m["point"]) for m, r in norun[:3]])
    items = [(r["id"], P.mode_tokens(r["output"])) for m, r in pairs if r["run_returned"]]
    bad_ids = L.eval_final_modes(res, "C05", items)
    bad = [(m, r) for m, r in pairs if r["id"] in bad_ids]
    res.oblige("Spec on real output (Coq: vt_run over the real mode tokens, both cursor-visibility conventions): all modes back to their defaults when Run has returned, %d runs" % len(items),
               not bad, [(m["cause"], m["point"], m["opts"], m["modes_history"], P.final_modes(P.mode_tokens(r["output"]))) for m, r in bad[:3]])
    tbad = [(m, r) for m, r in pairs if m.get("termios") and not P.machinery_problem(r) and (r.get("crashed") or r.get("termios_restored") is not True)]
    res.oblige("real runs on a terminal device (pty handed in; /dev/tty opened by the program in a child with a controlling pty): the line discipline is what it was before Run, %d runs" %
               sum(1 for m in metas if m.get("termios")), not tbad, [(m["cause"], m["point"], m["termios"], r.get("termios_restored"), (r.get("crash_text") or "")[:200]) for m, r in tbad[:3]])
    found = False
    for m, r in tbad[:1]:
        res.violation("C05:termios:%s:%s@%s" % (m["termios"], m["cause"], m["point"]),
                      "after Run returned (%s at %s) the terminal's line discipline is not what it was before (%s)" % (m["cause"], m["point"], m["termios"]),
                      {"scenario_meta": m, "result": P.summarize(r)})
        found = True
    for m, r in bad[:1]:
        fm = P.final_modes(P.mode_tokens(r["output"]))
        left = sorted(k for k, v in fm.items() if v != P.DEFAULT_MODES[k])
        res.violation("C05:unrestored:%s:%s@%s" % (",".join(left), m["cause"], m["point"]),
                      "after Run returned (%s at %s, options %s, mode history %s) the terminal is left with %s" % (m["cause"], m["point"], m["opts"], m["modes_history"], left),
                      {"scenario_meta": m, "final_modes": fm, "mode_tokens": P.mode_tokens(r["output"]), "result": P.summarize(r), "model_counterexamples": cex})
        found = True
    if not found and norun:
        m, r = norun[0]
        res.violation("C05:run-hang:%s@%s" % (m["cause"], m["point"]), "Run did not return, nothing was restored", {"scenario_meta": m, "result": P.summarize(r)})
        found = True
    if not found and not proofs_ok:
        res.violation("C05:obligation", "proof obligation no longer checks (%s); model search: %s; the modes were back to default after all %d real runs" %
                      (broken, "; ".join(k for k, v in cex.items() if v) or "no violating skeleton state", len(pairs)),
                      {"broken": broken, "model_counterexamples": cex, "searched": "%d scenarios" % len(pairs)}, found_input=False)
    res.coverage["input_distribution"] = {
        "causes": {c: sum(1 for m in metas if c in m["causes"]) for c in sorted({c for m in metas for c in m["causes"]})},
        "points": {p: sum(1 for m in metas if m["point"] == p) for p in sorted({m["point"] for m in metas})},
        "options": {k: sum(1 for m in metas if m["opts"].get(k)) for k in ("alt", "mouse", "nopaste", "focus")},
        "history_lengths": {str(k): sum(1 for m in metas if len(m["modes_history"]) == k) for k in sorted({len(m["modes_history"]) for m in metas})},
        "history_commands": {k: sum(m["modes_history"].count(k) for m in metas) for k in MODE_CMDS + ["exec"]},
    }
    res.coverage["traces_validated_against_impl"] = len(pairs)
    res.samples = [{"cause": m["cause"], "point": m["point"], "opts": m["opts"], "history": m["modes_history"]} for m, r in pairs[:6]]


def run(res, tier, seed):
    rnd = random.Random(seed * 7919 + 5)
    proofs_ok, broken, cex = L.skeleton_obligations(res, PROPS, OBL)
    okb, out = C.build_harness()
    if not okb:
        raise C.Fail("harness build failed (does /repo still compile with -tags verif?):\n" + out[-3000:])
    scs, metas = matrix(tier, rnd)
    results, dt = P.run_scenarios("C05", scs)
    judge(res, metas, results, proofs_ok, broken, cex)
    return res.finish(rule="random option subsets x random mode-command histories (incl. exec) x cause x point (incl. inside the exec'd command); all 32 option subsets with quit and Kill; start-up failure after terminal initialisation; distinct = (cause, point, options, history)",
                      trusted_extra=TRUSTED)


def replay(res, path):
    d = json.load(open(path))
    m = d.get("scenario_meta")
    if not m or m["point"].startswith("startup") or "pty-hangup" in m["point"]:
        raise C.Fail("replay: run ./check C05")
    okb, out = C.build_harness()
    if not okb:
        raise C.Fail("harness build failed:\n" + out[-3000:])
    hist = [P.B(k, cb=True) if k == "exec" else P.B(k) for k in m["modes_history"]]
    x = P.lifecycle_scenario(0, m["cause"], m["point"], m["pending"], opts=m["opts"], modes_history=hist)
    results, _ = P.run_scenarios("C05_replay", [x[0]])
    judge(res, [x[1]], results, True, None, {})
    print(json.dumps(P.summarize(results[0]), indent=1)[:3000])
    return res.finish(rule="replay of " + path, trusted_extra=TRUSTED)
