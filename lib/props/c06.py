"""C06 — after every render the terminal shows exactly the latest view."""
import random
from .. import renderer as R


def gen(rnd, tier):
    n = 420 if tier == "quick" else 20000
    cases = [R.gen_history(rnd, rnd.choice([6, 10, 16, 25, 40])) for _ in range(n)]
    # shrink/grow pairs at every size edge: unchanged last line, exact-width last line
    for w in (1, 2, 5, 10):
        for h in (1, 2, 3, 6):
            full = [ord("x")] * w
            for a, b in [([[97], [98], [99]], [[97], [98]]), ([full, [98]], [full]), ([[97], full, [99]], [[97], full]),
                         ([[97]] * (h + 2), [[97]] * h), ([[97]] * h, [[97]] * max(1, h - 1)), ([[97], []], [[97]]), ([full] * h, [])]:
                for alt in (False, True):
                    ops = [{"op": "resize", "w": w, "h": h}] + ([{"op": "enteralt"}] if alt else []) + \
                          [{"op": "write", "s": R.join_view(a)}, {"op": "flush"}, {"op": "write", "s": R.join_view(b)}, {"op": "flush"},
                           {"op": "write", "s": R.join_view(a)}, {"op": "flush"}]
                    cases.append({"w0": w, "h0": h, "history": [[46] * w], "used": min(1, h - 1), "ops": ops})
    return cases


def run(res, tier, seed):
    rnd = random.Random(seed * 1009 + 6)
    return R.run_family(res, "C06", "C06", gen(rnd, tier),
                        rule="histories of Write/Flush (views mutated from the previous one: changed lines, dropped tail/head, growth, exact/over-width lines, blank and empty views), alt switches, ClearScreen, repaint, prints, alt-screen resizes, mode ops; sizes 1..12 x 1..8 plus 80x24; initial rows above the view; deterministic shrink/grow pairs at size edges in both screens; distinct = distinct (ops, initial rows)")


def replay(res, path):
    return R.replay_family(res, "C06", "C06", path)
