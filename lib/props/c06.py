"""C06 — after every render the terminal shows exactly the latest view."""
import random
from .. import renderer as R


def gen(rnd, tier):
    n = 420 if tier == "quick" else 20000
    cases = [R.gen_history(rnd, rnd.choice([6, 10, 16, 25, 40])) for _ in range(n)]
    # shrink/grow pairs at every size edge: unchanged last line, exact-width last line
    for w in (1, 2, 5, 10):
        for h in (1, 2, 3, 6):
            full = [ord("x")] * w
            for a, b in [([[97], [98], [99]], [[97], [98]]), ([full, [98]], [full]), ([[97], full, [99]], [[97], full]),
                         ([[97]] * (h + 2), [[97]] * h), ([[97]] * h, [[97]] * max(1, h - 1)), ([[97], []], [[97]]), ([full] * h, [])]:
                for alt in (False, True):
                    ops = [{"op": "resize", "w": w, "h": h}] + ([{"op": "enteralt"}] if alt else []) + \
                          [{"op": "write", "s": R.join_view(a)}, {"op": "flush"}, {"op": "write", "s": R.join_view(b)}, {"op": "flush"},
                           {"op": "write", "s": R.join_view(a)}, {"op": "flush"}]
                    cases.append({"w0": w, "h0": h, "history": [[46] * w], "used": min(1, h - 1), "ops": ops})
                    # the displayed view written again after a different one that was never painted
                    ops2 = [{"op": "resize", "w": w, "h": h}] + ([{"op": "enteralt"}] if alt else []) + \
                           [{"op": "write", "s": R.join_view(a)}, {"op": "flush"}, {"op": "write", "s": R.join_view(b)}, {"op": "write", "s": R.join_view(a)}, {"op": "flush"},
                            {"op": "write", "s": R.join_view(b)}, {"op": "flush"}]
                    cases.append({"w0": w, "h0": h, "history": [[46] * w], "used": min(1, h - 1), "ops": ops2})
    # large terminals and tall views: three-digit cursor movements (more than 99 lines rendered, more than 120 columns)
    for w, h, n in ((200, 60, 58), (132, 110, 105), (121, 51, 51), (300, 120, 118)) if tier == "quick" else ((200, 60, 58), (132, 110, 105), (121, 51, 51), (300, 120, 118), (250, 101, 100), (500, 200, 150)):
        for alt in (False, True):
            v1 = [[65 + (i % 26)] * (1 + (i * 7) % (w + 3)) for i in range(n)]
            v2 = [list(l) for l in v1]
            v2[0] = [122] * (w - 1)
            v2[n // 2] = []
            v2[-1] = [121] * w
            v3 = v2[:n - 3]
            ops = [{"op": "resize", "w": w, "h": h}] + ([{"op": "enteralt"}] if alt else []) + \
                  [{"op": "write", "s": R.join_view(v1)}, {"op": "flush"}, {"op": "write", "s": R.join_view(v2)}, {"op": "flush"},
                   {"op": "write", "s": R.join_view(v3)}, {"op": "flush"}, {"op": "write", "s": R.join_view(v1)}, {"op": "flush"}]
            cases.append({"w0": w, "h0": h, "history": [], "used": 0, "ops": ops})
    return cases


PROPS = ["C06", "C06_thms"]
WIDE = ["a", "b", "c", "x", "y", "0", "9", " ", "\u4e16", "\u754c", "\u65e5", "\u672c", "\uff57"]


def wide_family(res, tier, rnd):
    """views with double-width runes and SGR styling (outside the Coq theorems' alphabet): the real renderer's bytes
    through lib/widevt.py, a Python terminal with cell widths; after every render the window shows the latest view"""
    import json
    import os
    from .. import common as C
    from .. import widevt as W
    okb, out = C.build_harness()
    if not okb:
        raise C.Fail("harness build failed:\n" + out[-2000:])

    def line(w):
        n = rnd.choice([0, 1, w // 2, w - 1, w, w + 1, w + 3])
        s = ""
        while W.width(s) < n:
            s += rnd.choice(WIDE)
        if rnd.random() < 0.3 and s:
            s = "\x1b[1;31m" + s[:len(s) // 2] + "\x1b[0m" + s[len(s) // 2:]
        return s
    cases = []
    for i in range(250 if tier == "quick" else 6000):
        w, h = rnd.choice([(6, 3), (10, 4), (12, 5), (5, 2), (20, 6), (2, 2)])
        alt = rnd.random() < 0.5
        ops = [{"op": "resize", "w": w, "h": h}] + ([{"op": "enteralt"}] if alt else [])
        views = []
        v = [line(w) for _ in range(rnd.randint(1, h))]
        for k in range(rnd.choice([2, 3, 5])):
            v = [(line(w) if rnd.random() < 0.5 else l) for l in v]
            if rnd.random() < 0.3 and len(v) < h:
                v.append(line(w))
            if rnd.random() < 0.3 and len(v) > 1:
                v.pop()
            s = "\n".join(v)
            ops += [{"op": "write", "s": list(s.encode())}, {"op": "flush"}]
            views.append(s)
        cases.append({"id": i, "ops": ops, "w": w, "h": h, "alt": alt, "views": views})
    ip, op_ = os.path.join(C.CASES, "C06_wide.in.jsonl"), os.path.join(C.CASES, "C06_wide.out.jsonl")
    with open(ip, "w") as f:
        for c in cases:
            f.write(json.dumps({"id": c["id"], "ops": c["ops"]}) + "\n")
    rc, out, _ = C.run_harness(["renderer", "-out", op_, ip], timeout=600)
    if rc != 0:
        raise C.Fail("renderer harness failed: " + out[-1000:])
    outs = C.read_jsonl(op_)
    bad, untok = [], 0
    for c, o in zip(cases, outs):
        if o.get("panic"):
            bad.append((c, "the renderer panicked: %s" % o["panic"]))
            continue
        vt = W.VT(c["w"], c["h"])
        vi = 0
        for op, b in zip(c["ops"], o["outs"]):
            if not vt.feed(bytes(b)):
                untok += 1
                break
            if op["op"] == "flush":
                exp = W.expected_rows(c["views"][vi], c["w"], c["h"])
                vi += 1
                want = exp + [""] * (c["h"] - len(exp))
                if vt.window() != want:
                    bad.append((c, "after render %d the window shows %r, the view is %r (%dx%d, %s)" % (vi, vt.window(), want, c["w"], c["h"], "alt screen" if c["alt"] else "inline")))
                    break
    res.oblige("exploration beyond the theorems' alphabet (double-width runes, SGR styling; Python terminal with cell widths, not Coq): after every render the window shows the latest view, %d histories" % len(cases),
               not bad and not untok, [b[1] for b in bad[:2]] or untok)
    for c, what in bad[:1]:
        res.violation("C06:wide-view", what, {"wide_case": {"ops": c["ops"], "w": c["w"], "h": c["h"], "alt": c["alt"], "views": c["views"]}})
    res.coverage["wide_family"] = {"histories": len(cases), "with_wide_runes": sum(1 for c in cases if any(W.cw(ch) == 2 for v in c["views"] for ch in W.strip_sgr(v))),
                                   "with_sgr": sum(1 for c in cases if any("\x1b[" in v for v in c["views"]))}


def run(res, tier, seed):
    rnd = random.Random(seed * 1009 + 6)
    wide_family(res, tier, random.Random(seed * 1009 + 66))
    return R.run_family(res, "C06", PROPS, gen(rnd, tier),
                        rule="histories of Write/Flush (views mutated from the previous one: changed lines, dropped tail/head, growth, exact/over-width lines, blank and empty views), alt switches, ClearScreen, repaint, prints, alt-screen resizes, mode ops; sizes 1..12 x 1..8 plus 80x24; initial rows above the view; deterministic shrink/grow pairs at size edges in both screens; distinct = distinct (ops, initial rows)")


def replay(res, path):
    return R.replay_family(res, "C06", PROPS, path)
