"""C07 — on quit the final model's view is on screen, whatever the timing."""
import random
from .. import renderer as R


def gen(rnd, tier):
    n = 380 if tier == "quick" else 15000
    cases = []
    for _ in range(n):
        c = R.gen_history(rnd, rnd.choice([3, 6, 10, 18]), allow_alt=rnd.random() < 0.2, end_stop=True)
        cases.append(c)
    # an alt-screen session in the middle: what the main screen still shows afterwards is the frame painted BEFORE it;
    # lines that changed during the session and then stay must be repainted on the way out
    for w, h in ((10, 4), (6, 3), (12, 6)):
        for flush_after_exit in (True, False):
            v0 = [[105, 110, 108], [99, 48]]          # "inl" / "c0"
            v1 = [[97, 108, 116], [99, 49]]           # "alt" / "c1"   (line 0 changes while in the alt screen)
            v2 = [[97, 108, 116], [99, 50]]           # "alt" / "c2"   (line 0 stays, line 1 changes)
            ops = [{"op": "resize", "w": w, "h": h}, {"op": "write", "s": R.join_view(v0)}, {"op": "flush"}, {"op": "enteralt"},
                   {"op": "write", "s": R.join_view(v1)}, {"op": "flush"}, {"op": "exitalt"}]
            if flush_after_exit:
                ops += [{"op": "write", "s": R.join_view(v1)}, {"op": "flush"}]
            ops += [{"op": "write", "s": R.join_view(v2)}, {"op": "stop"}]
            cases.append({"w0": w, "h0": h, "history": [[46] * w], "used": 1, "ops": ops})
    # quitting immediately after the last update, any number of coalesced intermediate views
    for k in (0, 1, 2, 5):
        for w, h in ((10, 4), (3, 2), (1, 1), (6, 6)):
            ops = [{"op": "resize", "w": w, "h": h}, {"op": "write", "s": R.join_view([[97, 98], [99]])}, {"op": "flush"}]
            view = [[97, 98], [99]]
            for _ in range(k):
                view = R.mutate_view(rnd, view, w, h)
                ops.append({"op": "write", "s": R.join_view(view)})
            view = R.mutate_view(rnd, view, w, h)
            ops += [{"op": "write", "s": R.join_view(view)}, {"op": "stop"}]
            cases.append({"w0": w, "h0": h, "history": [[46] * w] * 2, "used": min(1, h - 1), "ops": ops})
            # final view ends with a newline (the usual case), shrinks, is empty
            for fin in ([[120], []], [[120, 121, 122]] * (h + 1) + [[]], []):
                cases.append({"w0": w, "h0": h, "history": [], "used": 0,
                              "ops": ops[:3] + [{"op": "write", "s": R.join_view(fin)}, {"op": "stop"}]})
    # the last view written is the one that is ALREADY on the screen, after a different view was written and not yet
    # painted (A painted, B written, A written again, quit / next tick): the pending B must not come back
    for w, h in ((10, 4), (8, 3)):
        for alt in (False, True):
            for tail in ("stop", "flush-stop"):
                a = [[106, 111, 98, 58, 32, 105, 100, 108, 101], [120], []]      # "job: idle" / "x" / ""
                b = [[106, 111, 98, 58, 32, 98, 117, 115, 121], [120], []]       # "job: busy" / "x" / ""
                ops = [{"op": "resize", "w": w, "h": h}] + ([{"op": "enteralt"}] if alt else []) + \
                      [{"op": "write", "s": R.join_view(a)}, {"op": "flush"}, {"op": "write", "s": R.join_view(b)}, {"op": "write", "s": R.join_view(a)}]
                ops += [{"op": "flush"}, {"op": "write", "s": R.join_view(a)}, {"op": "stop"}] if tail == "flush-stop" else [{"op": "stop"}]
                cases.append({"w0": w, "h0": h, "history": [[46] * w], "used": 1, "ops": ops})
    return cases


def program_family(res, tier, rnd):
    """whole Programs: quitting right after the last update at fps 1 / 60 / 120, and with the terminal released by the
    application: the last frame painted when Run returns is the final model's view"""
    from .. import program as P
    from .. import common as C
    okb, out = C.build_harness()
    if not okb:
        raise C.Fail("harness build failed:\n" + out[-2000:])
    scs, metas = [], []
    for fps in (1, 60, 120):
        for n in (1, 3, 12):
            for variant in ("plain", "released", "alt-roundtrip", "slow-writer"):
                script = [P.W("started")]
                if variant == "released":
                    script += [P.W("idle"), P.DO("release-terminal")]
                if variant == "alt-roundtrip":
                    script += [P.W("idle"), P.DO("send", msg=P.B("enteralt")), P.DO("send", msg=P.U(90)), P.DO("sleep", us=30000), P.DO("send", msg=P.B("exitalt"))]
                extra = {}
                if variant == "slow-writer":
                    # the terminal is slow: the Write call carrying the frame of the first update takes 150 ms; the
                    # remaining updates and the quit arrive while it is in progress
                    if fps == 1:
                        continue
                    extra["out_fault"] = {"match": "view 1", "delay_us": 150000}
                    script += [P.W("idle"), P.DO("send", msg=P.U(90)), P.DO("sleep", us=40000)]
                script += [P.DO("send", msg=P.U(k)) for k in range(n)] + [P.DO("quit"), P.W("returned")]
                scs.append(P.scenario(len(scs), script, opts={"fps": fps}, parallel_ok=True, watchdog_ms=4000, **extra))
                metas.append({"fps": fps, "updates": n, "variant": variant})
    for grow in ((10, 40), (12, 33), (20, 80)):
        # the window is widened while a line wider than the old window is on the screen and stays unchanged: when the
        # program quits the whole line must be there (the size messages are sent by the application; the output is replayed
        # on a terminal of the final width)
        w0, w1 = grow
        script = [P.W("started"), P.DO("send", msg=P.B("windowsizemsg", w=w0, h=8)), P.W("idle"), P.DO("send", msg=P.U(1)), P.DO("sleep", us=30000), P.W("idle"),
                  P.DO("send", msg=P.B("windowsizemsg", w=w1, h=8)), P.DO("sleep", us=30000), P.W("idle"), P.DO("send", msg=P.U(2)), P.DO("sleep", us=30000), P.W("idle"),
                  P.DO("quit"), P.W("returned")]
        scs.append(P.scenario(len(scs), script, opts={"fps": 120}, view={"pad": 2, "at": 1}, parallel_ok=True, watchdog_ms=4000))
        metas.append({"variant": "widen", "from": w0, "to": w1, "fps": 120, "updates": 2})
    results, _ = P.run_scenarios("C07_prog", scs, timeout=600)
    bad = []
    import re as _re
    from .. import widevt as W
    for m, r in zip(metas, results):
        if m["variant"] == "widen" and not (P.machinery_problem(r) or not r["run_returned"]):
            vt = W.VT(m["to"], 8)
            okf = vt.feed(bytes(r["output"]))
            full = ["row 00 ..........................", "view %d" % r["final_ver"], "row 02 .........................."]
            want = [W.truncate(l, m["to"]) for l in full][:2]      # (the last line has no newline: stop erases it, as the property says)
            got = vt.window()[:2]
            if not okf or got != want:
                bad.append((m, "the window was widened from %d to %d columns; after the quit the screen shows %r, the final view is %r" % (m["from"], m["to"], got, want)))
            continue
        if P.machinery_problem(r) or not r["run_returned"] or r["run_err"] != "nil":
            bad.append((m, "scenario did not complete: %s" % P.summarize(r)["run_err"]))
            continue
        out_b = bytes(r["output"])
        views = _re.findall(rb"view (\d+)", out_b)
        if not views or int(views[-1]) != r["final_ver"]:
            bad.append((m, "Run returned model %d; the last frame painted is %s" % (r["final_ver"], views[-1:] or None)))
    res.oblige("Spec on real Programs: when Run returns after a quit the last frame painted is the final model's view (fps 1/60/120, quit right after the last update, terminal released by the application, alt-screen round trip; %d programs)" % len(scs),
               not bad, bad[:2])
    for m, what in bad[:1]:
        res.violation("C07:program-final-view:%s" % m["variant"], what, {"scenario_meta": m})
    res.coverage["program_family"] = len(scs)


def wide_family(res, tier, rnd):
    """final views with double-width runes and SGR styling (outside the Coq theorems' alphabet): the real renderer's
    bytes through lib/widevt.py; after Stop the rows above the cursor show the newline-terminated lines of the LAST view
    written, and nothing of an earlier one (also in the last column, where a wide rune that does not fit is dropped)"""
    import json
    import os
    from .. import common as C
    from .. import widevt as W
    from .c06 import WIDE
    okb, out = C.build_harness()
    if not okb:
        raise C.Fail("harness build failed:\n" + out[-2000:])

    def line(w):
        n = rnd.choice([0, 1, w // 2, w - 1, w, w + 1, w + 3])
        s = ""
        while W.width(s) < n:
            s += rnd.choice(WIDE)
        if rnd.random() < 0.25 and s:
            s = "\x1b[1;32m" + s[:len(s) // 2] + "\x1b[0m" + s[len(s) // 2:]
        return s
    cases = []
    for i in range(200 if tier == "quick" else 5000):
        w, h = rnd.choice([(6, 3), (10, 4), (12, 5), (5, 3), (20, 6), (3, 2)])
        ops = [{"op": "resize", "w": w, "h": h}]
        v = [line(w) for _ in range(rnd.randint(1, h - 1))]
        for k in range(rnd.choice([1, 2, 4])):
            if k:
                v = [(line(w) if rnd.random() < 0.6 else l) for l in v]
            ops += [{"op": "write", "s": list(("\n".join(v) + "\n").encode())}] + ([{"op": "flush"}] if k == 0 or rnd.random() < 0.7 else [])
        v = [(line(w) if rnd.random() < 0.6 else l) for l in v]
        ops += [{"op": "write", "s": list(("\n".join(v) + "\n").encode())}, {"op": "stop"}]
        cases.append({"id": i, "w0": w, "h0": h, "history": [], "used": 0, "ops": ops})
    ip, op_ = os.path.join(C.CASES, "C07_wide.in.jsonl"), os.path.join(C.CASES, "C07_wide.out.jsonl")
    with open(ip, "w") as f:
        for c in cases:
            f.write(json.dumps({"id": c["id"], "ops": c["ops"]}) + "\n")
    rc, out, _ = C.run_harness(["renderer", "-out", op_, ip], timeout=600)
    if rc != 0:
        raise C.Fail("renderer harness failed: " + out[-1000:])
    outs = C.read_jsonl(op_)
    bad = []
    for c, o in zip(cases, outs):
        if o.get("panic"):
            bad.append((c, "the renderer panicked: %s" % o["panic"]))
            continue
        f = W.replay_history(c, o["outs"])
        if f is not None:
            bad.append((c, "op %d: %s" % f))
    wide = sum(1 for c in cases if any(W.cw(ch) == 2 for ch in W.strip_sgr(bytes(c["ops"][-2]["s"]).decode())))
    res.oblige("exploration beyond the theorems' alphabet (double-width runes, SGR styling; Python terminal with cell widths, not Coq): after Stop the screen shows the last view written, %d histories (%d with wide runes in the final view)" % (len(cases), wide),
               not bad, [b[1] for b in bad[:2]])
    for c, what in bad[:1]:
        res.violation("C07:wide-final-view", what, {"wide_case": c})
    res.coverage["wide_family"] = {"histories": len(cases), "final_view_with_wide_runes": wide}


def run(res, tier, seed):
    rnd = random.Random(seed * 2003 + 7)
    program_family(res, tier, rnd)
    wide_family(res, tier, random.Random(seed * 1013 + 77))
    return R.run_family(res, "C07", PROPS, gen(rnd, tier),
                        rule="histories of writes/flushes in any interleaving (the ticker's timing is the position of Flush) ending in Write v_f; Stop; 0..5 coalesced intermediate views; final views ending in a newline, shrinking, empty; oracle = Spec.shows_final_inline on the real tokens; distinct = distinct (ops, initial rows)")


PROPS = ["C07", "C07_thms", "C07_skel"]


def replay(res, path):
    return R.replay_family(res, "C07", PROPS, path)
