"""C07 — on quit the final model's view is on screen, whatever the timing."""
import random
from .. import renderer as R


def gen(rnd, tier):
    n = 380 if tier == "quick" else 15000
    cases = []
    for _ in range(n):
        c = R.gen_history(rnd, rnd.choice([3, 6, 10, 18]), allow_alt=rnd.random() < 0.2, end_stop=True)
        cases.append(c)
    # quitting immediately after the last update, any number of coalesced intermediate views
    for k in (0, 1, 2, 5):
        for w, h in ((10, 4), (3, 2), (1, 1), (6, 6)):
            ops = [{"op": "resize", "w": w, "h": h}, {"op": "write", "s": R.join_view([[97, 98], [99]])}, {"op": "flush"}]
            view = [[97, 98], [99]]
            for _ in range(k):
                view = R.mutate_view(rnd, view, w, h)
                ops.append({"op": "write", "s": R.join_view(view)})
            view = R.mutate_view(rnd, view, w, h)
            ops += [{"op": "write", "s": R.join_view(view)}, {"op": "stop"}]
            cases.append({"w0": w, "h0": h, "history": [[46] * w] * 2, "used": min(1, h - 1), "ops": ops})
            # final view ends with a newline (the usual case), shrinks, is empty
            for fin in ([[120], []], [[120, 121, 122]] * (h + 1) + [[]], []):
                cases.append({"w0": w, "h0": h, "history": [], "used": 0,
                              "ops": ops[:3] + [{"op": "write", "s": R.join_view(fin)}, {"op": "stop"}]})
    return cases


def run(res, tier, seed):
    rnd = random.Random(seed * 2003 + 7)
    return R.run_family(res, "C07", PROPS, gen(rnd, tier),
                        rule="histories of writes/flushes in any interleaving (the ticker's timing is the position of Flush) ending in Write v_f; Stop; 0..5 coalesced intermediate views; final views ending in a newline, shrinking, empty; oracle = Spec.shows_final_inline on the real tokens; distinct = distinct (ops, initial rows)")


PROPS = ["C07", "C07_thms", "C07_skel"]


def replay(res, path):
    return R.replay_family(res, "C07", PROPS, path)
