"""C08 — every documented key sequence decodes to its key, in any context."""
import random
from .. import decoder as D


def successors(rnd):
    """one representative follower of every kind"""
    return [[], [("ctl", 13, False)], [("runes", [97])], [("runes", [0xE9])], [("space", False)], [("nul", False)],
            [("key", 0, False)], [("altrune", 120)], [("sgr", 0, 1, 1, False)], [("x10", 0, 1, 1)],
            [("paste", [104, 105])], [("csi", [57, 57], [], 120)], [("esc",)], [("focus",)], [("altesc",), ("ctl", 9, False)]]


def gen(rnd, tier):
    cases = []
    succ = successors(rnd)
    n_ref = len(D.ref())
    # every table entry alone, with alt where it applies, followed by each successor class
    for i in range(n_ref):
        alts = [False] + ([True] if not D.ref()[i][2] else [])
        for alt in alts:
            e = ("key", i, alt)
            picks = succ if tier == "thorough" else [succ[0]] + rnd.sample(succ[1:], 3)
            for s in picks:
                evs = [e] + list(s)
                rest = [b for x in s for b in D.encode(x)]
                if D.clean(e, rest):
                    cases.append(D.stream_case(evs, tag="table"))
    # every control byte, space, NUL, with and without alt, with successors
    for b in [x for x in range(128) if D.is_ctl(x)]:
        for alt in (False, True):
            s = rnd.choice(succ)
            e = ("ctl", b, alt)
            if D.clean(e, [y for x in s for y in D.encode(x)]):
                cases.append(D.stream_case([e] + list(s), tag="ctl"))
    # every control byte / space / NUL embedded between runs of text (the run must end exactly there)
    for b in [x for x in range(128) if D.is_ctl(x)]:
        for alt in (False, True):
            cases.append(D.stream_case([("runes", [97, 0xE9]), ("ctl", b, alt), ("runes", [99])], tag="ctl-in-text"))
    for e in [("space", False), ("space", True), ("nul", False), ("nul", True), ("altesc",)]:
        cases.append(D.stream_case([("runes", [97, 98]), e, ("runes", [99])], tag="ctl-in-text"))
    # every table entry right after text
    for i in range(n_ref):
        cases.append(D.stream_case([("runes", [120, 121]), ("key", i, False), ("runes", [122])], tag="key-in-text"))
    for e in [("space", False), ("space", True), ("nul", False), ("nul", True), ("altesc",), ("esc",), ("focus",), ("blur",)]:
        for s in (succ if e[0] not in ("esc", "focus", "blur") else [[]]):
            if D.clean(e, [y for x in s for y in D.encode(x)]):
                cases.append(D.stream_case([e] + list(s), tag="special"))
        cases.append(D.stream_case([("runes", [97, 98])] + [e], tag="special"))
    # scalars: boundaries of every UTF-8 length, U+FFFD, last scalar
    for r in [33, 126, 128, 0x7FF, 0x800, 0xD7FF, 0xE000, 0xFFFD, 0xFFFF, 0x10000, 0x10FFFF] + [rnd.randint(160, 0x10FFFF) for _ in range(30)]:
        if 0xD800 <= r <= 0xDFFF:
            continue
        cases.append(D.stream_case([("runes", [r])], tag="scalar"))
        cases.append(D.stream_case([("altrune", r), ("ctl", 13, False)], tag="scalar"))
        cases.append(D.stream_case([("runes", [97, r, 98, r])], tag="scalar"))
    # alt + a letter that also introduces a control function (SS3 O, CSI [, SS2 N, DCS P, OSC ], PM ^, APC _, SOS X), followed
    # by every printable byte: unless the three bytes are a documented sequence, this is alt+letter and then that byte
    for c1 in b"O[NP]^_X":
        seconds = list(range(0x20, 0x7f))
        if tier == "quick" and c1 not in b"O[":
            seconds = rnd.sample(seconds, 12)
        for c2 in seconds:
            e = ("altrune", c1)
            follow = ("runes", [c2]) if c2 != 0x20 else ("space", False)
            if D.clean(e, D.encode(follow)):
                cases.append(D.stream_case([e, follow], tag="alt-introducer"))
                cases.append(D.stream_case([("runes", [97]), e, follow, ("key", 0, False)], tag="alt-introducer"))
    # a documented key (with and without alt) cut at every position by the end of a full 256-byte read: "in any context"
    # includes the context of the reads it arrives in
    ents = list(range(n_ref))
    if tier == "quick":
        ents = rnd.sample(ents, 24)
    for i in ents:
        for alt in ([False, True] if not D.ref()[i][2] else [False]):
            e = ("key", i, alt)
            eb = D.encode(e)
            for cut in range(1, len(eb)):
                pre = 256 - cut
                evs = [("runes", [97 + (k % 26) for k in range(pre - 1)]), ("ctl", 13, False), e, ("ctl", 9, False), ("runes", [122])]
                if all(D.clean(evs[j], [b for x in evs[j + 1:] for b in D.encode(x)]) for j in range(len(evs))):
                    cases.append(D.stream_case(evs, tag="key-across-reads"))
    # random well-formed streams read together
    n = 500 if tier == "quick" else 20000
    for _ in range(n):
        evs = D.gen_stream(rnd, rnd.choice([2, 3, 4, 6, 9]))
        if sum(len(D.encode(e)) for e in evs) < 256:
            cases.append(D.stream_case(evs, tag="random"))
    # malformed stream: model equality only
    for _ in range(150 if tier == "quick" else 3000):
        evs = D.gen_stream(rnd, rnd.choice([2, 4]))
        bs = [b for e in evs for b in D.encode(e)]
        for _ in range(rnd.randint(1, 3)):
            if bs:
                k = rnd.randrange(len(bs))
                c = rnd.random()
                if c < 0.4:
                    del bs[k]
                elif c < 0.7:
                    bs.insert(k, rnd.choice([27, 91, 59, 48, 126, 0, 200]))
                else:
                    bs[k] = rnd.randrange(256)
        cases.append(D.bytes_case(bs[:255], tag="malformed"))
    return cases, []


def run(res, tier, seed):
    rnd = random.Random(seed * 31337 + 8)
    cases, dcases = gen(rnd, tier)
    return D.run_family(res, "C08", ["C08", "C08_stream"], cases, dcases,
                        rule="every RefTable entry (+alt) x successor classes, every control byte +-alt, space/NUL/ESC ESC/ESC/focus/blur, UTF-8 boundary scalars of every length incl. U+FFFD, random well-formed streams within one read (Spec evaluated on real output), mutated/malformed streams (model equality); distinct = distinct byte strings")


def replay(res, path):
    return D.replay_family(res, "C08", ["C08", "C08_stream"], path)
