"""C09 — the input reader is total: never panics, stalls, loses or repeats bytes."""
import random
from .. import decoder as D

FRAGS = [
    [27], [27, 27], [27, 91], [27, 79], [27, 91, 49], [27, 91, 49, 59], [27, 91, 49, 59, 50], [27, 91, 60], [27, 91, 60, 49, 59],
    [27, 91, 60, 49, 59, 50, 59], [27, 91, 77], [27, 91, 77, 32], [27, 91, 77, 32, 33], [27, 91, 50, 48, 48, 126],
    [27, 91, 50, 48, 49, 126], [27, 91, 50, 48, 48], [27, 91, 50, 48, 49], [27, 91, 73], [27, 91, 79], [0], [0, 0], [127], [32],
    [0xC3], [0xE2, 0x82], [0xF0, 0x9F, 0x98], [0xF0, 0x9F], [0x80], [0xFF], [0xC0, 0x80], [0xED, 0xA0, 0x80], [0xF4, 0x90, 0x80, 0x80],
    [0xEF, 0xBF, 0xBD], [0xC3, 0xA9], [0xE2, 0x82, 0xAC], [0xF0, 0x9F, 0x98, 0x80],
    [27, 91, 60] + [57] * 25 + [59, 49, 59, 49, 77], [27, 91] + [48] * 30, [27, 91, 32, 32, 32],
    [27, 91, 65], [27, 79, 80], [27, 91, 49, 59, 50, 65], [27, 27, 91, 65], [97], [97, 98, 99], [27, 97], [27, 0],
]


def soup(rnd, n):
    out = []
    while len(out) < n:
        c = rnd.random()
        if c < 0.55:
            out += rnd.choice(FRAGS)
        elif c < 0.75:
            out.append(rnd.choice([27, 91, 60, 59, 77, 109, 126, 48, 49, 57, 79, 73, 32, 0]))
        elif c < 0.9:
            out.append(rnd.randrange(256))
        else:
            out += [rnd.randint(97, 122)] * rnd.randint(1, 6)
    return out


def sizes(rnd):
    c = rnd.random()
    if c < 0.25:
        return [256]
    if c < 0.4:
        return [1]
    if c < 0.55:
        return [rnd.randint(1, 8)]
    if c < 0.7:
        return [256, 256, rnd.randint(1, 255)]
    return [rnd.choice([1, 2, 3, 5, 6, 7, 13, 64, 255, 256]) for _ in range(rnd.randint(1, 6))]


def gen(rnd, tier):
    cases, dcases = [], []
    n = 260 if tier == "quick" else 4000
    for i in range(n):
        ln = rnd.choice([0, 1, 2, 5, 12, 30, 30, 80, 256, 257, 300, 520, 700])
        if tier == "quick" and ln > 300 and i % 3:
            ln = 40
        bs = soup(rnd, ln)[:max(ln, 0) + 8]
        err = rnd.choice(["eof", "eof", "fail"])
        cancel = -1
        if rnd.random() < 0.2:
            cancel = rnd.randint(0, 6)
        c = D.bytes_case(bs, sizes(rnd), err=err, cancel=cancel, tag="soup")
        if rnd.random() < 0.1:
            c["chunks"].insert(rnd.randrange(len(c["chunks"]) + 1), [])   # a zero-byte read
        cases.append(c)
    # every fragment alone, truncated at every length, short read and full-buffer read
    for f in FRAGS:
        for k in range(1, len(f) + 1):
            dcases.append({"b": f[:k], "more": False, "tag": "frag"})
            dcases.append({"b": f[:k], "more": True, "tag": "frag"})
    # all single bytes; all ESC + byte
    for b in range(256):
        dcases.append({"b": [b], "more": False, "tag": "single"})
        dcases.append({"b": [27, b], "more": b % 2 == 0, "tag": "esc+byte"})
    dcases.append({"b": [], "more": False, "tag": "empty"})
    # fragments placed so that they end exactly at / straddle the 256-byte boundary
    for f in FRAGS[:36]:
        for off in ([0, 1, len(f) - 1] if tier == "quick" else range(0, len(f) + 1)):
            pad = 256 - len(f) + off
            if pad < 0:
                continue
            bs = [97 + (i % 26) for i in range(pad)] + f + [120, 121]
            cases.append(D.bytes_case(bs, [256], tag="boundary"))
    # complete events that end exactly where a full read ends, with nothing (EOF / a failing read / an empty read) after:
    # the event must still be delivered (these are stream cases: the Spec is evaluated on the real output)
    def key_ev(seq):
        for i, ent in enumerate(D.ref()):
            if list(ent[0]) == seq:
                return ("key", i, False)
        return None
    tails = [key_ev([27, 91, 65]), key_ev([27, 79, 80]), key_ev([27, 91, 49, 59, 50, 65]), key_ev([27, 91, 49, 53, 126]),
             ("ctl", 13, True), ("x10", 0, 1, 2), ("sgr", 0, 1, 1, False), ("ctl", 1, False)]
    # (events that could still grow - a rune run, ESC + rune, a lone ESC - are legitimately held back after a full read
    #  and are not in this list: "bytes are held back only while an event may still be incomplete")
    for ev in [t for t in tails if t is not None]:
        for nread in (1, 2):
            pad = 256 * nread - len(D.encode(ev))
            evs = [("runes", [97 + (i % 26) for i in range(pad)]), ev]
            for err in ("eof", "fail"):
                for with_empty_read in (False, True):
                    c = D.stream_case(evs, [256], err=err, tag="boundary-end")
                    if not with_empty_read and c["chunks"] and c["chunks"][-1] == []:
                        c["chunks"].pop()
                    cases.append(c)
    # X10 reports whose coordinate bytes look like the start of a UTF-8 character (lead byte, continuation byte): they
    # are plain coordinate bytes; alone at the end of the input and followed by more input
    for cx in (0xC2, 0xC3, 0xDF, 0xE0, 0xE2, 0xEF, 0xF0, 0xF4):
        for cy in (0x80, 0xA0, 0xBF):
            ev = ("x10", 0, cx - 32, cy - 32)
            cases.append(D.stream_case([ev], tag="x10-utf8"))
            cases.append(D.stream_case([("runes", [97]), ev, ("ctl", 13, False), ("runes", [98])], tag="x10-utf8"))
            dcases.append({"b": D.encode(ev), "more": False, "tag": "x10-utf8"})
            dcases.append({"b": D.encode(ev) + [0xA9], "more": cy % 2 == 0, "tag": "x10-utf8"})
    # a truncated multi-byte character at the end of a short read (an event boundary), then end of input or more input
    for trunc in ([0xE4], [0xE4, 0xB8], [0xF0, 0x9F, 0x98], [0xC3]):
        for pre in ([], [97, 98], [27]):
            cases.append(D.bytes_case(pre + trunc, [256], err="eof", tag="truncated-utf8"))
            cases.append(D.bytes_case(pre + trunc, [256], err="fail", tag="truncated-utf8"))
            c = D.bytes_case(pre + trunc + [120], [256], err="eof", tag="truncated-utf8")
            c["chunks"] = [pre + trunc, [120]]
            cases.append(c)
    # the last bytes arrive TOGETHER with the error (io.Reader allows n > 0 with err != nil: readers over sockets, decompressors
    # and test doubles do it): they are input like any other and must be decoded before the reader stops
    for i in range(40 if tier == "quick" else 600):
        ln = rnd.choice([1, 2, 5, 12, 30, 80, 255, 256, 257, 300])
        bs = soup(rnd, ln)[:ln + 8]
        c = D.bytes_case(bs, sizes(rnd), err=rnd.choice(["eof", "fail"]), tag="data-with-error")
        if c["chunks"] and c["chunks"][-1]:
            c["err_with_last"] = True
        cases.append(c)
    for evs in ([("runes", [97, 98, 99])], [("runes", [104, 105]), ("ctl", 13, False)], [("ctl", 13, False)] * 3):
        c = D.stream_case(evs, tag="data-with-error")
        c["err_with_last"] = True
        cases.append(c)
    # the input ends right after a FULL read: what was held back in case more would follow (a rune run, an ESC, the start
    # of a sequence) must be released when the end of the input is known
    tails = [[97], [27], [27, 91], [27, 91, 49, 59], [27, 79], [0xE4, 0xB8], [27, 91, 77, 32], [27, 91, 60, 49, 59, 50], [27, 27], [104, 105]]
    for k, tail in enumerate(tails):
        for total in (256, 512):
            for fill in (97, 13):
                bs = [fill] * (total - len(tail)) + tail
                cases.append(D.bytes_case(bs, [256], err=["eof", "fail"][k % 2], tag="full-last-read"))
    for i in range(20 if tier == "quick" else 400):
        bs = soup(rnd, 600)[:rnd.choice([256, 512])]
        if len(bs) in (256, 512):
            cases.append(D.bytes_case(bs, [256], err="eof", tag="full-last-read"))
    # unterminated pastes growing over several reads
    for ln in [0, 1, 250, 256, 600]:
        cases.append(D.bytes_case([27, 91, 50, 48, 48, 126] + soup(rnd, ln), [256], err="fail", tag="open-paste"))
    return cases, dcases


def run(res, tier, seed):
    rnd = random.Random(seed * 104729 + 9)
    cases, dcases = gen(rnd, tier)
    return D.run_family(res, "C09", "C09", cases, dcases, spec_on_streams=True,
                        rule="byte soup biased to escape-sequence fragments, invalid UTF-8, NULs, huge numbers; chunkings 1..256 incl. exactly-256 and zero-byte reads; EOF and failing reads; cancellation after 0..6 messages; every fragment truncated at every length with and without canHaveMoreData; all single bytes and ESC+byte; fragments at the 256 boundary; distinct = distinct (chunking, bytes, cancel, err)")


def replay(res, path):
    return D.replay_family(res, "C09", "C09", path, spec_on_streams=False)
