"""C10 — bracketed paste content arrives intact as one uninterpreted paste message."""
import random
from .. import decoder as D

START = [27, 91, 50, 48, 48, 126]
END = [27, 91, 50, 48, 49, 126]


def no_tail_events(evs):
    return [e for e in evs if e[0] not in ("esc", "focus", "blur")]


def paste_case(rnd, pre, payload, post, sizes, tag):
    """Reads may end: at any event boundary, or anywhere inside a paste once its
    start marker has arrived whole (payload and end marker cut arbitrarily)."""
    evs = pre + [("paste", payload)] + post
    for i in range(len(evs)):
        if not D.valid_event(evs[i]) or not D.clean(evs[i], [b for e in evs[i + 1:] for b in D.encode(e)]):
            return None
    allowed = set()
    pos = 0
    bs = []
    for e in evs:
        eb = D.encode(e)
        if e[0] == "paste":
            for k in range(6, len(eb) + 1):
                allowed.add(pos + k)
        pos += len(eb)
        allowed.add(pos)
        bs += eb
    chunks, cur, k = [], 0, 0
    while cur < len(bs):
        want = sizes[k % len(sizes)]
        k += 1
        # the largest allowed cut not beyond cur+want (and within the 256-byte buffer)
        cand = [c for c in allowed if cur < c <= cur + min(want, 256)]
        if not cand:
            cand = [c for c in allowed if cur < c <= cur + 256]
            if not cand:
                return None
            nxt = min(cand)
        else:
            nxt = max(cand)
        chunks.append(bs[cur:nxt])
        cur = nxt
    if not chunks:
        chunks = [[]]
    if len(chunks[-1]) == 256:
        chunks.append([])
    return {"evs": evs, "chunks": chunks, "err": "eof", "cancel": -1, "tag": tag}


def gen(rnd, tier):
    cases = []
    n = 420 if tier == "quick" else 12000
    lens = [0, 1, 2, 5, 6, 7, 40, 249, 250, 255, 256, 257, 300, 511, 512, 520, 770]
    for i in range(n):
        ln = rnd.choice(lens)
        if tier == "quick" and ln > 300 and i % 4:
            ln = rnd.choice([3, 17, 60])
        payload = D.gen_payload(rnd, ln)
        pre = no_tail_events(D.gen_stream(rnd, rnd.choice([0, 0, 1, 2])))
        post = D.gen_stream(rnd, rnd.choice([0, 1, 2, 3]))
        if rnd.random() < 0.25:      # a second paste right behind / among the followers
            post = [("paste", D.gen_payload(rnd, rnd.choice([0, 3, 20])))] + post
        c = rnd.random()
        if c < 0.2:
            sizes = [256]
        elif c < 0.35:
            sizes = [1]
        elif c < 0.5:
            sizes = [len(payload) + k for k in [rnd.randint(0, 6)]] if payload else [3]   # cut inside the end marker
            sizes = [max(1, min(256, sizes[0]))] + [rnd.randint(1, 6)]
        else:
            sizes = [rnd.choice([1, 2, 3, 5, 6, 7, 11, 64, 100, 255, 256]) for _ in range(rnd.randint(1, 5))]
        pc = paste_case(rnd, pre, payload, post, sizes, "paste")
        if pc:
            cases.append(pc)
    # long pastes followed by long text, read in plain 256-byte reads
    for _ in range(12 if tier == "quick" else 300):
        evs = no_tail_events(D.gen_stream(rnd, rnd.choice([0, 1, 3]))) + [("paste", D.gen_payload(rnd, rnd.choice([250, 300, 520])))]
        evs += [("runes", [97 + (i % 26) for i in range(rnd.choice([200, 300, 520]))]), ("ctl", 13, False), ("key", 5, False)]
        if rnd.random() < 0.5:
            evs += [("paste", D.gen_payload(rnd, rnd.choice([10, 300]))), ("ctl", 9, False)]
        if all(D.valid_event(evs[i]) and D.clean(evs[i], [b for e in evs[i + 1:] for b in D.encode(e)]) for i in range(len(evs))):
            cases.append(D.stream_case(evs, tag="long-paste-long-text"))
    # every split position of the end marker, short payload
    for cut in range(0, 7):
        for payload in ([], [97], [27, 91, 50, 48, 49], [0xEF, 0xBF, 0xBD, 0x80, 27, 91, 65]):
            pc = paste_case(rnd, [("runes", [120])], payload, [("ctl", 13, False)], [len(payload) + cut if len(payload) + cut > 0 else 1, 256], "end-marker-split")
            if pc:
                cases.append(pc)
    # payloads that are exactly one character with a meaning of its own when typed (space, a letter, DEL, ESC, tab, enter),
    # alone and between invalid bytes, in one read and cut after the start marker
    for payload in ([32], [113], [127], [27], [9], [13], [0xFF, 32, 0xFE], [0xC3, 0xA9], [0]):
        for sizes in ([256], [6, 256], [7, 1, 256]):
            pc = paste_case(rnd, [("runes", [120])], payload, [("ctl", 13, False)], sizes, "one-character")
            if pc:
                cases.append(pc)
    # pastes much longer than anything else the reader ever holds back (17 and 36 read buffers)
    for ln in ((4200, 9000) if tier == "quick" else (4090, 4200, 5000, 9000, 20000)):
        for sizes in ([256], [100], [255, 7]):
            pc = paste_case(rnd, [("runes", [120])], D.gen_payload(rnd, ln), [("ctl", 13, False), ("key", 0, False)], sizes, "huge")
            if pc:
                cases.append(pc)
    # pastes read in one piece among neighbours (incl. two pastes in one read)
    for _ in range(120 if tier == "quick" else 2000):
        evs = D.gen_stream(rnd, rnd.choice([2, 3, 5]))
        k = rnd.randrange(len(evs))
        evs = no_tail_events(evs[:k]) + [("paste", D.gen_payload(rnd, rnd.choice([0, 4, 30]))), ("paste", D.gen_payload(rnd, rnd.choice([0, 2, 9])))] + evs[k:]
        if sum(len(D.encode(e)) for e in evs) < 256 and all(D.clean(evs[i], [b for e in evs[i + 1:] for b in D.encode(e)]) for i in range(len(evs))):
            cases.append(D.stream_case(evs, tag="one-read"))
    return cases, []


def run(res, tier, seed):
    rnd = random.Random(seed * 7331 + 10)
    cases, dcases = gen(rnd, tier)
    return D.run_family(res, "C10", ["C10", "C10_thms"], cases, dcases,
                        rule="paste payloads (text, escape sequences, mouse reports, control bytes, invalid UTF-8, partial end markers; lengths 0..3 buffers) with random neighbours; the start marker arrives whole, payload+end marker are cut at random positions (1-byte reads, cuts inside the end marker, exactly-256 reads), followers cut at event boundaries; two pastes back to back; distinct = distinct (chunking, bytes)")


def replay(res, path):
    return D.replay_family(res, "C10", ["C10", "C10_thms"], path)
