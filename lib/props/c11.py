"""C11 — mouse reports decode to the right button, action, modifiers and cell."""
import random
from .. import decoder as D


def gen(rnd, tier):
    cases, dcases = [], []
    xs = [1, 2, 80, 223, 224, 9999, 2 ** 31, 2 ** 63 - 1]
    ys = [1, 24, 223, 5000]
    # every SGR code x {M,m} alone, with edge coordinates
    for code in range(256):
        for rel in (False, True):
            x, y = rnd.choice(xs), rnd.choice(ys)
            e = ("sgr", code, x, y, rel)
            dcases.append({"b": D.encode(e) + rnd.choice([[], [97], [27, 91, 65], [32]]), "more": False, "tag": "sgr-all-codes"})
            if x < 2 ** 63:
                cases.append(D.stream_case([e], tag="sgr-all-codes"))
    for code in range(224):
        e = ("x10", code, rnd.choice([1, 2, 95, 223]), rnd.choice([1, 50, 223]))
        dcases.append({"b": D.encode(e) + rnd.choice([[], [97], [27], [0]]), "more": False, "tag": "x10-all-codes"})
        cases.append(D.stream_case([e], tag="x10-all-codes"))
    # the X10 coordinate plane on a grid (phase drawn from the seed), each report followed by another byte / report in the
    # same read: every (column, row) class, not only the edges, with the consumed width compared
    step = 6 if tier == "quick" else 2
    ox, oy = rnd.randrange(step), rnd.randrange(step)
    for cx in range(1 + ox, 224, step):
        for cy in range(1 + oy, 224, step):
            e = ("x10", rnd.randrange(224), cx, cy)
            tail = rnd.choice([[97], [113], D.encode(("x10", 0, 5, 5)), [27, 91, 65]])
            dcases.append({"b": D.encode(e) + tail, "more": False, "tag": "x10-grid"})
            # ... and as a stream with a neighbour, so that the Spec is evaluated on the real decoding too
            nxt = rnd.choice([("runes", [113]), ("x10", 0, 5, 5), ("key", 0, False), ("ctl", 13, False)])
            cases.append(D.stream_case([e, nxt], tag="x10-grid"))
    # huge codes / coordinates (saturation, never a panic)
    for code, x, y in [(2 ** 63, 1, 1), (10 ** 30, 10 ** 30, 10 ** 30), (256 + 35, 2 ** 64 + 5, 7), (0, 2 ** 63, 2 ** 63 - 1)]:
        dcases.append({"b": D.encode(("sgr", code, x, y, False)), "more": False, "tag": "sgr-huge"})
    # reports embedded between neighbours of every kind, read together
    n = 250 if tier == "quick" else 3000
    for _ in range(n):
        pre = D.gen_stream(rnd, rnd.choice([0, 1, 2])) if rnd.random() < 0.8 else []
        post = D.gen_stream(rnd, rnd.choice([1, 2]))
        if rnd.random() < 0.6:
            m = ("sgr", rnd.randrange(256), rnd.choice(xs[:6] + [rnd.randint(1, 400)]), rnd.choice(ys + [rnd.randint(1, 200)]), rnd.random() < 0.5)
        else:
            m = ("x10", rnd.randrange(224), rnd.randint(1, 223), rnd.randint(1, 223))
        evs = [e for e in pre if e[0] not in ("esc", "focus", "blur")] + [m] + post
        if all(D.clean(evs[i], [b for e in evs[i + 1:] for b in D.encode(e)]) for i in range(len(evs))):
            cases.append(D.stream_case(evs, tag="embedded"))
    # malformed near-misses: model equality only
    for _ in range(60 if tier == "quick" else 600):
        b = [27, 91, 60] + [rnd.choice([48, 49, 57, 59, 59, 77, 109, 60, 45, 32, 120]) for _ in range(rnd.randint(0, 12))]
        dcases.append({"b": b + rnd.choice([[], [77], [109], [59, 49, 77]]), "more": rnd.random() < 0.3, "tag": "sgr-malformed"})
        b = [27, 91, 77] + [rnd.randrange(256) for _ in range(rnd.randint(0, 4))]
        dcases.append({"b": b, "more": rnd.random() < 0.3, "tag": "x10-short-or-odd"})
    # the same report several times in a row (every report is a message of its own), alone and between keys, SGR and X10 mixed
    for e in [("sgr", 35, 10, 5, False), ("sgr", 32, 1, 1, False), ("sgr", 0, 7, 7, False), ("sgr", 64, 3, 3, False), ("x10", 35, 10, 5), ("x10", 32, 200, 100)]:
        for n in (2, 3, 5):
            cases.append(D.stream_case([e] * n, tag="repeated-report"))
            cases.append(D.stream_case([("runes", [97])] + [e] * n + [("ctl", 13, False)], tag="repeated-report"))
            cases.append(D.stream_case([e] * n, [len(D.encode(e))], tag="repeated-report"))      # one report per read
    cases.append(D.stream_case([("sgr", 35, 10, 5, False), ("x10", 35, 10, 5), ("sgr", 35, 10, 5, False)], tag="repeated-report"))
    # a report cut at every position by the end of a full 256-byte read (short and long SGR reports, X10 reports)
    for e in [("sgr", 0, 1, 1, False), ("sgr", 35, 120, 40, False), ("sgr", 64, 223, 223, True), ("sgr", 130, 9999, 5000, False), ("x10", 0, 1, 1), ("x10", 35, 200, 100)]:
        eb = D.encode(e)
        for cut in range(1, len(eb)):
            pre = 256 - cut
            evs = [("runes", [97 + (k % 26) for k in range(pre - 1)]), ("ctl", 13, False), e, ("ctl", 9, False), ("runes", [122])]
            if all(D.clean(evs[j], [b for x in evs[j + 1:] for b in D.encode(x)]) for j in range(len(evs))):
                cases.append(D.stream_case(evs, tag="report-across-reads"))
    return cases, dcases


def run(res, tier, seed):
    rnd = random.Random(seed * 7919 + 11)
    cases, dcases = gen(rnd, tier)
    # detect cases for well-formed reports also have a Spec: add them as one-event streams
    extra = []
    for d in dcases:
        pass
    return D.run_family(res, "C11", "C11", cases, dcases,
                        rule="all 256 SGR codes x {M,m} and all 224 X10 codes with edge coordinates (detectOneMsg, width compared), huge numbers, reports embedded between random well-formed neighbours (Spec evaluated on real output), malformed near-misses (model equality); distinct = distinct (chunking, bytes)")


def replay(res, path):
    return D.replay_family(res, "C11", "C11", path)
