"""C12 — terminal modes always equal what options and commands asked for."""
import json
import random

from .. import common as C
from .. import program as P
from .. import renderer as R

PROPS = ["C12"]
TRUSTED = [
    "L0 event-loop model Model/EvLoop.v interpreted over the GENERATED dispatch table (gen/Dispatch.v) and Model/Lifecycle.v over the GENERATED start-up call list (gen/Lifecycle.v); renderer mode methods mirrored in Model/Renderer.v",
    "terminal = Model/VT.v (xterm private modes; 1049 saves/restores the cursor and clears the alt buffer); both cursor-visibility conventions are checked",
    "Spec.Modes.apply / apply_opts: the abstract mode machine written from the property text",
]
CMD = {"enteralt": "MEnterAlt", "exitalt": "MExitAlt", "mousecell": "MMouseCell", "mouseall": "MMouseAll", "mouseoff": "MMouseOff",
       "pasteon": "MPasteOn", "pasteoff": "MPasteOff", "focuson": "MFocusOn", "focusoff": "MFocusOff", "showcursor": "MShowCursor",
       "hidecursor": "MHideCursor", "clear": "MClear"}
PRE = ("From Coq Require Import List Bool NArith Arith String.\nImport ListNotations.\n"
       "From BT Require Import Base.Bytes Model.GenTypes Model.VT Model.Renderer Model.EvLoop Spec.Modes Model.Lifecycle.\n"
       "From BTGen Require Dispatch Lifecycle.\n")


def coq_opts(o):
    b = lambda x: "true" if x else "false"   # noqa: E731
    return "(Build_opts %s %s %s %s %s)" % (b(o.get("alt")), b(o.get("mouse") == "cell"), b(o.get("mouse") == "all"), b(o.get("nopaste")), b(o.get("focus")))


def gen(tier, rnd):
    cases = []
    subsets = []
    for bits in range(32):
        o = {}
        if bits & 1:
            o["alt"] = True
        if bits & 2:
            o["mouse"] = "cell"
        elif bits & 4:
            o["mouse"] = "all"
        if bits & 8:
            o["nopaste"] = True
        if bits & 16:
            o["focus"] = True
        subsets.append(o)
    reps = 2 if tier == "quick" else 40
    names = list(CMD)
    for rep in range(reps):
        for o in subsets:
            n = rnd.choice([0, 1, 2, 3, 5, 8, 12, 20, 30])
            cmds = []
            for _ in range(n):
                if cmds and rnd.random() < 0.25:
                    # revisit: the same family as an earlier command (idempotence, re-enable after disable)
                    fam = rnd.choice(cmds)[:4]
                    cmds.append(rnd.choice([c for c in names if c[:4] == fam] or names))
                else:
                    cmds.append(rnd.choice(names))
            cases.append({"opts": o, "cmds": cmds})
    # main screen preservation: alt-screen programs that never leave it
    for rep in range(8 if tier == "quick" else 100):
        o = dict(rnd.choice(subsets))
        o["alt"] = True
        cmds = [rnd.choice([c for c in names if c != "exitalt"]) for _ in range(rnd.randint(0, 10))]
        cases.append({"opts": o, "cmds": cmds, "main": True})
    return cases


def scenarios(cases):
    scs = []
    for i, c in enumerate(cases):
        script = [P.W("started"), P.W("idle")]
        for k in c["cmds"]:
            script.append(P.DO("send", msg=P.B(k)))
        # ... and once more after the renderer has had time to paint frames (a frame must not disturb the modes)
        script += [P.W("idle"), P.DO("sleep", us=40000), P.DO("send", msg=P.U(77)), P.DO("sleep", us=30000), P.W("idle"), P.DO("send", msg=P.U(78)), P.W("idle"),
                   P.DO("quit"), P.W("returned")]
        scs.append(P.scenario(i, script, opts=dict(c["opts"], fps=120), parallel_ok=True, watchdog_ms=3000))
    return scs


def run(res, tier, seed):
    rnd = random.Random(seed * 7919 + 12)
    proofs_ok, broken = C.proof_obligations(res, PROPS)
    okb, out = C.build_harness()
    if not okb:
        raise C.Fail("harness build failed (does /repo still compile with -tags verif?):\n" + out[-3000:])
    cases = gen(tier, rnd)
    results, dt = P.run_scenarios("C12", scenarios(cases))
    mach = [(c, r) for c, r in zip(cases, results) if P.machinery_problem(r) or not r["run_returned"]]
    res.oblige("harness: every scenario ran as scripted (%d)" % len(cases), not mach, [(c, P.machinery_problem(r)) for c, r in mach[:2]])
    items = []
    for i, (c, r) in enumerate(zip(cases, results)):
        res.count((json.dumps(c["opts"], sort_keys=True), tuple(c["cmds"])))
        out_b = bytes(r["output"])
        ups = [e for e in r["events"] if e["ev"] == "UpdateBegin" and e.get("key", "").startswith("b:")]
        # mode tokens written before each Update of a mode command (the command's own effect included: it precedes Update)
        prefixes = [P.mode_tokens(out_b[:e["outlen"]]) for e in ups]
        keys = [e["key"][2:] for e in ups]
        final_before_quit = P.mode_tokens(out_b[:ups[-1]["outlen"]]) if ups else P.mode_tokens(out_b[:0])
        items.append((i, c, keys, prefixes))
    body = []
    rows = []
    for i, c, keys, prefixes in items:
        cmds = "[" + "; ".join(CMD[k] for k in c["cmds"]) + "]"
        obs = "[" + "; ".join(P.coq_mode_toks(p) for p in prefixes) + "]"
        rows.append("(%d%%N, %s, %s, %s)" % (i, coq_opts(c["opts"]), cmds, obs))
    rows_def = "Definition rows : list (N * opts * list modecmd * list (list tok)) := [%s]."
    body.append("Definition dm := map sc_call BTGen.Lifecycle.disable_mouse_calls.")
    body.append("Definition only_modes (ks : list tok) := filter (fun k => match k with TSet _ | TReset _ => true | _ => false end) ks.")
    body.append("Definition tok_eqb (a b : tok) := match a, b with TSet x, TSet y | TReset x, TReset y => (x =? y)%N | _, _ => false end.")
    body.append("Fixpoint toks_eqb (a b : list tok) := match a, b with [], [] => true | x :: a', y :: b' => tok_eqb x y && toks_eqb a' b' | _, _ => false end.")
    # Spec on the real output: after the k-th command the modes are fold apply (firstn k cmds) (apply_opts o), both conventions
    body.append("Definition spec_row (x : N * opts * list modecmd * list (list tok)) : bool := let '(_, o, cmds, obs) := x in "
                "(List.length obs =? List.length cmds)%nat && forallb (fun sh => forallb (fun kp => modes_eqb (vt_modes (vt_run sh (vt_init 80 24 [] 0) (snd kp))) "
                "(fold_left apply (firstn (S (fst kp)) cmds) (apply_opts o))) (combine (seq 0 (List.length obs)) obs)) [true; false].")
    # K2: the model's mode tokens (start-up + every command) = the real ones written before the last command's Update
    body.append("Definition model_row (x : N * opts * list modecmd * list (list tok)) : bool := let '(_, o, cmds, obs) := x in "
                "let '(r0, t0, ok) := startup BTGen.Lifecycle.run_calls dm o r_init in "
                "let s := el_run (M:=nat) (U:=nat) BTGen.Dispatch.dispatch dm None (fun m _ => (S m, None)) (fun _ => []) (el_init 0%nat r0) (map (fun c => RB (kind_of_cmd c)) cmds) in "
                "ok && match obs with [] => true | _ => toks_eqb (only_modes (t0 ++ el_out s)) (last obs []) end.")
    body.append("Definition bad_spec := map (fun x => fst (fst (fst x))) (filter (fun x => negb (spec_row x)) rows).")
    body.append("Definition bad_model := map (fun x => fst (fst (fst x))) (filter (fun x => negb (model_row x)) rows).")
    bad_spec, _ = C.coq_eval_sharded("cases_C12s", PRE, rows, rows_def, body, "bad_spec", shard=150)
    bad_model, _ = C.coq_eval_sharded("cases_C12m", PRE, rows, rows_def, body, "bad_model", shard=150)
    res.oblige("Spec on real output (Coq: Spec.Modes.apply over the real mode tokens sampled at every Update, both cursor conventions), %d programs" % len(cases),
               not bad_spec, [cases[i] for i in bad_spec[:2]])
    # the same after frames have been painted: sampled at a later, unrelated Update
    rows3 = []
    for i, (c, r) in enumerate(zip(cases, results)):
        u78 = next((e for e in r["events"] if e["ev"] == "UpdateBegin" and e.get("key") == "u:78"), None)
        if u78 is None:
            continue
        rows3.append("(%d%%N, %s, %s, %s)" % (i, coq_opts(c["opts"]), "[" + "; ".join(CMD[k] for k in c["cmds"]) + "]", P.coq_mode_toks(P.mode_tokens(bytes(r["output"])[:u78["outlen"]]))))
    rows3_def = "Definition rows3 : list (N * opts * list modecmd * list tok) := [%s]."
    body3 = ["Definition settled_ok (x : N * opts * list modecmd * list tok) : bool := let '(_, o, cmds, ks) := x in "
             "forallb (fun sh => modes_eqb (vt_modes (vt_run sh (vt_init 80 24 [] 0) ks)) (fold_left apply cmds (apply_opts o))) [true; false].",
             "Definition bad_settled := map (fun x => fst (fst (fst x))) (filter (fun x => negb (settled_ok x)) rows3)."]
    bad_settled, _ = C.coq_eval_sharded("cases_C12t", PRE, rows3, rows3_def, body3, "bad_settled", shard=150)
    res.oblige("Spec on real output: the modes are still those of options+commands after frames have been painted (sampled at a later Update), %d programs" % len(rows3),
               not bad_settled and len(rows3) == len(cases), [cases[i] for i in bad_settled[:2]])
    res.oblige("K2: L0 model mode tokens (generated dispatch + start-up lists) = the real program's, %d programs" % len(cases), not bad_model,
               [cases[i] for i in bad_model[:2]])
    # main screen untouched: full real token stream through the Coq terminal
    mains = [(i, c, r) for i, (c, r) in enumerate(zip(cases, results)) if c.get("main")]
    rows2, untok = [], []
    for i, c, r in mains:
        ts = R.tokenize(r["output"])
        if ts is None:
            untok.append(i)
            continue
        rows2.append("(%d%%N, %s)" % (i, R.coq_toks(ts)))
    rows2_def = "Definition runs : list (N * list tok) := [%s]."
    body2 = ["Definition hist : list row := [repeat 120%N 80; repeat 121%N 80; repeat 122%N 80].",
             "Fixpoint rows_eqb (a b : list row) := match a, b with [], [] => true | x :: a', y :: b' => (if list_eq_dec N.eq_dec x y then true else false) && rows_eqb a' b' | _, _ => false end.",
             "Definition keeps (sh : bool) (ks : list tok) := rows_eqb (firstn 3 (tape (vmain (vt_run sh (vt_init 80 24 hist 3) ks)))) hist.",
             "Definition bad_main := map fst (filter (fun x => negb (keeps true (snd x) && keeps false (snd x))) runs)."]
    bad_main, _ = C.coq_eval_sharded("cases_C12_main", PRE, rows2, rows2_def, body2, "bad_main", shard=40)
    res.oblige("Spec on real output: an alt-screen program that never leaves it does not alter the main-screen rows above the cursor (%d programs, full token stream through Model/VT)" % len(mains),
               not bad_main and not untok, [cases[i] for i in (bad_main + untok)[:2]])
    found = False
    for i in bad_settled[:1]:
        c, r = cases[i], results[i]
        u78 = next(e for e in r["events"] if e["ev"] == "UpdateBegin" and e.get("key") == "u:78")
        res.violation("C12:modes-after-frames", "after frames had been painted the terminal modes differ from options+commands (options %s, commands %s): %s" %
                      (c["opts"], c["cmds"], P.final_modes(P.mode_tokens(bytes(r["output"])[:u78["outlen"]]))), {"case": c})
        found = True
    for i in bad_spec[:1]:
        c, r = cases[i], results[i]
        ups = [e for e in r["events"] if e["ev"] == "UpdateBegin" and e.get("key", "").startswith("b:")]
        seen = [P.final_modes(P.mode_tokens(bytes(r["output"])[:e["outlen"]])) for e in ups]
        res.violation("C12:modes", "the terminal modes sampled inside Update differ from options+commands applied in order (options %s, commands %s)" % (c["opts"], c["cmds"]),
                      {"case": c, "modes_seen_at_each_update": seen, "mode_tokens": P.mode_tokens(r["output"])})
        found = True
    for i in bad_main[:1]:
        res.violation("C12:main-screen", "an alt-screen program changed main-screen rows above the cursor", {"case": cases[i], "output": results[i]["output"]})
        found = True
    if not found and (not proofs_ok or bad_model or untok):
        res.violation("C12:obligation", "proof obligation or model/implementation correspondence broken (%s; %d programs whose mode tokens differ from the L0 model); the Spec held on all real outputs" % (broken, len(bad_model)),
                      {"broken": broken, "mismatching_cases": [cases[i] for i in bad_model[:3]], "searched": "%d programs" % len(cases)}, found_input=False)
    res.coverage["input_distribution"] = {
        "option_subsets": 32, "programs": len(cases),
        "history_lengths": {str(k): sum(1 for c in cases if len(c["cmds"]) == k) for k in sorted({len(c["cmds"]) for c in cases})},
        "commands": {k: sum(c["cmds"].count(k) for c in cases) for k in CMD},
    }
    res.coverage["traces_validated_against_impl"] = len(cases)
    res.samples = [{"opts": c["opts"], "cmds": c["cmds"][:12]} for c in cases[:6]]
    return res.finish(rule="all 32 start-up option subsets x random mode-command histories (length 0..30, with revisits of the same family); modes sampled at every Update from the real output; alt-screen programs replayed in full through the Coq terminal; distinct = (options, history)",
                      trusted_extra=TRUSTED)


def replay(res, path):
    d = json.load(open(path))
    c = d.get("case") or (d.get("mismatching_cases") or [None])[0]
    if not c:
        raise C.Fail("replay file has no case")
    okb, out = C.build_harness()
    results, _ = P.run_scenarios("C12_replay", scenarios([c]))
    r = results[0]
    ups = [e for e in r["events"] if e["ev"] == "UpdateBegin" and e.get("key", "").startswith("b:")]
    for e, k in zip(ups, c["cmds"]):
        print(k, P.final_modes(P.mode_tokens(bytes(r["output"])[:e["outlen"]])))
    res.oblige("replayed", True)
    return res.finish(rule="replay (prints the modes seen at every Update)", trusted_extra=TRUSTED)
