"""C13 — Send, Quit, Wait, Println and Printf never hang once the program has ended."""
import json
import random

from .. import common as C
from .. import lifecycle as L
from .. import program as P

PROPS = ["C13"]
OBL = ["released-at-return", "no-dead-end"]
TRUSTED = [
    "control skeleton Model/Skel.v with guards computed from gen/ (Model/SkelTie.v: api_guarded, guards_of_gen); reflection certificates (Proof/SkelCert.v)",
    "the number of callers is abstracted: a closed channel releases any number of receivers, a cancelled context any number of selecting senders (Go channel semantics, assumed)",
]


def matrix(tier, rnd):
    scs, metas = [], []

    def add(x, **extra):
        if x is None:
            return
        s, m = x
        s["id"] = len(scs)
        m.update(extra)
        scs.append(s)
        metas.append(m)
    points = ["idle", "update", "batch", "view"] if tier == "quick" else P.POINTS
    for cause in P.CAUSES:
        for point in points:
            # callers blocked in the calls when the cause strikes (the loop is busy), and callers arriving after the end
            add(P.lifecycle_scenario(0, cause, point, "senders", before_api=True, after_api=True))
    for cause in P.CAUSES:
        # the application released the terminal and never took it back
        add(P.lifecycle_scenario(0, cause, "released", "senders", before_api=True, after_api=True))
    for cause in ("quit", "kill", "cancel", "interrupt"):
        # the input is a plain reader parked in Read (it cannot be cancelled): nobody may wait for it
        add(P.lifecycle_scenario(0, cause, "idle", "input", after_api=True))
    # the output writer panics once while the terminal is being handed back (the show-cursor write of the exit path): Run
    # recovers and returns; everybody waiting is released all the same
    for cause in ("quit", "interrupt", "cancel"):
        x = P.lifecycle_scenario(0, cause, "idle", "none", before_api=True, after_api=True)
        if x:
            sc, m = x
            sc["out_fault"] = {"match": "\u001b[?25h", "panic": True}
            m["point"] = "idle:writer-panics-at-exit"
            m["causes"] = list(m["causes"]) + ["panic"]
            add((sc, m))
    # many callers at once: 150 Println/Printf/Send calls parked behind a busy loop when the cause strikes, 150 more after the end
    for cause in ("quit", "kill", "cancel"):
        x = P.lifecycle_scenario(0, cause, "update", "none", before_api=True, after_api=True)
        if x:
            sc, m = x
            k = next(i for i, st in enumerate(sc["script"]) if st.get("do") == "api")
            sc["script"][k:k] = [P.DO("api", kind="println", n=100), P.DO("api", kind="printf", n=30), P.DO("api", kind="send", n=20)]
            sc["script"] = [st for st in sc["script"] if st != P.W("api")] + \
                [P.DO("api", kind="println", n=100), P.DO("api", kind="printf", n=30), P.DO("api", kind="send", n=20), P.W("api")]
            m["point"] = "update:many-callers"
            add((sc, m))
    # a second signal arrives while the program is already on its way out (the event loop has returned and the final View
    # is being computed): the signal handler's Send has no receiver any more; shutdown must not wait for it for ever
    for s1, s2 in (("term", "term"), ("term", "int"), ("term", "term")):
        script = [P.W("started"), P.W("idle"), P.DO("api", kind="wait", n=2), P.DO("signal", sig=s1), P.W("pause:view:2"),
                  P.DO("signal", sig=s2), P.DO("sleep", us=60000), P.DO("api", kind="send", n=2), P.DO("api", kind="println", n=1),
                  P.DO("release", label="view:2", all=True), P.W("returned"),
                  P.DO("api", kind="wait", n=2), P.DO("api", kind="send", n=2), P.DO("api", kind="println", n=1), P.DO("api", kind="printf", n=1),
                  P.DO("api", kind="quit", n=1), P.W("api")]
        sc = P.scenario(0, script, opts={"nosighandler": False}, view={"pause_at": 2}, isolate=True, watchdog_ms=5000)
        cause = "sigint" if s1 == "int" else "sigterm"
        add((sc, {"cause": cause, "point": "final-view:second-signal-" + s2, "pending": "none", "causes": [cause], "before_api": True, "after_api": True}))
    # the context is already cancelled when Run is called (callers before and after)
    add(P.lifecycle_scenario(0, "cancel", "before-run", "none", before_api=True, after_api=True))
    add(P.lifecycle_scenario(0, "kill", "before-run", "none", before_api=True, after_api=True))
    add(P.lifecycle_scenario(0, "cancel", "before-run", "none", after_api=True, waits_before_run=3))
    # Wait entered before Run has started
    for cause in ("quit", "kill", "cancel", "interrupt", "readerr"):
        add(P.lifecycle_scenario(0, cause, "idle", "none", after_api=True, waits_before_run=3))
    # Run fails while starting: no controlling terminal for WithInputTTY, a regular file as input (epoll refuses it)
    for kind in ("tty", "file"):
        s = P.scenario(0, [P.DO("api", kind="wait", n=2), P.DO("api", kind="send", n=2), P.DO("run"), P.W("returned"),
                           P.DO("api", kind="wait", n=2), P.DO("api", kind="send", n=2), P.DO("api", kind="println", n=1),
                           P.DO("api", kind="printf", n=1), P.DO("api", kind="quit", n=1), P.W("api")],
                       inp={"kind": kind, "bytes": [97]}, parallel_ok=True)
        add((s, {"cause": "startfail", "point": "startup:" + kind, "pending": "none", "causes": ["startfail"], "before_api": True, "after_api": True}))
    # Send before the program runs blocks until it is running
    s = P.scenario(0, [P.DO("go-send", msg=P.U(5)), P.DO("sleep", us=30000), P.DO("run"), P.W("started"), P.W("idle"), P.DO("quit"), P.W("returned")],
                   init_ctl={"sleep_us": 20000}, parallel_ok=True)
    add((s, {"cause": "quit", "point": "before-start", "pending": "none", "causes": ["quit"], "send_before_start": True}))
    if tier != "quick":
        for rep in range(5):
            for cause in ("kill", "cancel", "quit", "interrupt"):
                for point in ("update", "batch", "view"):
                    x = P.lifecycle_scenario(0, cause, point, "all", before_api=True, after_api=True)
                    x[0].pop("parallel_ok", None)
                    x[0]["gomaxprocs"] = rnd.choice([1, 2, 4, 16])
                    add(x)
    return scs, metas


def judge(res, metas, results, proofs_ok, broken, cex):
    pairs = list(zip(metas, results))
    for m, r in pairs:
        res.count((m["cause"], m["point"], m.get("waits_before_run", 0)))
    mach = [(m, r) for m, r in pairs if P.machinery_problem(r)]
    res.oblige("harness: every scenario ran as scripted (%d scenarios)" % len(pairs), not mach,
               [(m["cause"], m["point"], P.machinery_problem(r)) for m, r in mach[:3]])
    # Spec evaluated in Coq: api_ok on the returned flags of every call
    body = ["Definition calls : list (N * list bool) := [%s]." %
            ";\n ".join("(%d%%N, [%s])" % (r["id"], "; ".join("true" if a["returned"] else "false" for a in r["api"])) for m, r in pairs),
            "Definition bad := map fst (filter (fun x => negb (api_ok (snd x))) calls)."]
    vals, _ = C.coq_eval("cases_C13_api", L.PRE, body, ["bad"])
    bad_ids = set(C.parse_nat_list(C.parse_coq_value(vals["bad"]).replace("%N", "")))
    ncalls = sum(len(r["api"]) for m, r in pairs)
    bad = [(m, r) for m, r in pairs if r["id"] in bad_ids and not P.machinery_problem(r)]
    norun = [(m, r) for m, r in pairs if not r["run_returned"] and not P.machinery_problem(r)]
    res.oblige("Spec on real runs (Coq: Spec.LifeSpec.api_ok): every Send/Quit/Wait/Println/Printf call returned, %d calls in %d runs" % (ncalls, len(pairs)),
               not bad, [(m["cause"], m["point"], [(a["kind"], a["started_before_return"]) for a in r["api"] if not a["returned"]][:4]) for m, r in bad[:3]])
    res.oblige("real runs: Run itself returned in every scenario", not norun, [(m["cause"], m["point"]) for m, r in norun[:3]])
    early = []
    for m, r in pairs:
        if m.get("send_before_start"):
            sd = [e["c"] for e in r["events"] if e["ev"] == "SendDone"]
            ib = [e["c"] for e in r["events"] if e["ev"] == "InitBegin"]
            ub = [e["c"] for e in r["events"] if e["ev"] == "UpdateBegin" and e.get("key") == "u:5"]
            if not sd or not ib or sd[0] < ib[0] or not ub:
                early.append((m, r))
    res.oblige("real runs: a Send before the start blocks until the program runs, and its message is delivered", not early)
    found = False
    for m, r in bad[:1]:
        stuck = [(a["kind"], "before-end" if a["started_before_return"] else "after-end") for a in r["api"] if not a["returned"]]
        kinds = sorted({k + ":" + w for k, w in stuck})
        res.violation("C13:hang:%s:%s@%s" % (",".join(kinds), m["cause"], m["point"]),
                      "API calls did not return after the program ended by %s at %s: %s" % (m["cause"], m["point"], kinds),
                      {"scenario_meta": m, "result": P.summarize(r), "model_counterexamples": cex})
        found = True
    for m, r in early[:1]:
        res.violation("C13:send-before-start", "a Send made before Run returned before the program was running (or its message was lost)",
                      {"scenario_meta": m, "result": P.summarize(r)})
        found = True
    if not found and norun:
        m, r = norun[0]
        res.violation("C13:run-hang:%s@%s" % (m["cause"], m["point"]), "Run did not return (so Wait cannot either)", {"scenario_meta": m, "result": P.summarize(r)})
        found = True
    if not found and not proofs_ok:
        res.violation("C13:obligation", "proof obligation no longer checks (%s); model search: %s; every API call returned in all %d real runs" %
                      (broken, "; ".join(k for k, v in cex.items() if v) or "no violating skeleton state", len(pairs)),
                      {"broken": broken, "model_counterexamples": cex, "searched": "%d scenarios, %d calls" % (len(pairs), ncalls)}, found_input=False)
    res.coverage["input_distribution"] = {
        "causes": {c: sum(1 for m in metas if c in m["causes"]) for c in sorted({c for m in metas for c in m["causes"]})},
        "points": {p: sum(1 for m in metas if m["point"] == p) for p in sorted({m["point"] for m in metas})},
        "calls": {k: sum(1 for r in results for a in r["api"] if a["kind"] == k) for k in ("wait", "send", "println", "printf", "quit", "kill")},
        "calls_started_before_return": sum(1 for r in results for a in r["api"] if a["started_before_return"]),
        "calls_started_after_return": sum(1 for r in results for a in r["api"] if not a["started_before_return"]),
    }
    res.coverage["traces_validated_against_impl"] = len(pairs)
    res.samples = [{"cause": m["cause"], "point": m["point"], "api": [(a["kind"], a["started_before_return"], a["returned"]) for a in r["api"]][:10]} for m, r in pairs[:5]]


def run(res, tier, seed):
    rnd = random.Random(seed * 7919 + 13)
    proofs_ok, broken, cex = L.skeleton_obligations(res, PROPS, OBL)
    okb, out = C.build_harness()
    if not okb:
        raise C.Fail("harness build failed (does /repo still compile with -tags verif?):\n" + out[-3000:])
    scs, metas = matrix(tier, rnd)
    results, dt = P.run_scenarios("C13", scs)
    if tier == "thorough":
        # the other direction of the correspondence (code within model), see lib/lifecycle.trace_inclusion
        from .. import lifecycle as _L
        _scs = scs
        _stuck = _L.trace_inclusion(res, "C13", [(a, {"cause": "?", "point": "?"}, b) for a, b in zip(_scs, results)], 16)
        if _stuck:
            res.violation("C13:obligation:trace", "the callback sequence of a real run is not a path of the control skeleton (observation %d)" % _stuck[0][3],
                          {"scenario": _stuck[0][0], "observations": _L.observations(_stuck[0][0], _stuck[0][2])[1]}, found_input=False)
    judge(res, metas, results, proofs_ok, broken, cex)
    return res.finish(rule="cause x point with callers of Wait(3) Send(2) Println(2) Printf(1) Quit blocked in the call when the cause strikes and a second wave of callers after Run has returned; Wait entered before Run; start-up failures (no tty, regular-file input); Send before start; distinct = (cause, point, waits-before-run)",
                      trusted_extra=TRUSTED)


def replay(res, path):
    d = json.load(open(path))
    m = d.get("scenario_meta")
    if not m or m["point"].startswith("startup") or m.get("send_before_start"):
        raise C.Fail("replay: run ./check C13 (scenario is part of the fixed matrix)")
    okb, out = C.build_harness()
    if not okb:
        raise C.Fail("harness build failed:\n" + out[-3000:])
    x = P.lifecycle_scenario(0, m["cause"], m["point"], m["pending"], before_api=m.get("before_api", False), after_api=m.get("after_api", False),
                             waits_before_run=m.get("waits_before_run", 0))
    results, _ = P.run_scenarios("C13_replay", [x[0]])
    judge(res, [x[1]], results, True, None, {})
    print(json.dumps(P.summarize(results[0]), indent=1)[:4000])
    return res.finish(rule="replay of " + path, trusted_extra=TRUSTED)
