"""C14 — printed lines appear once, in order, above the view, never overwritten."""
import random
from .. import renderer as R

PROPS = ["C14", "C14_thms"]


def gen(rnd, tier):
    n = 380 if tier == "quick" else 15000
    cases = []
    for _ in range(n):
        # print-heavy histories; views of every height up to H so that printing scrolls
        w, h = rnd.choice([(rnd.randint(1, 12), rnd.randint(1, 8))] * 5 + [(10, 3), (80, 24), (4, 2)])
        hist = [[rnd.choice(R.ALPHA) for _ in range(w)] for _ in range(rnd.randint(0, 3))]
        used = rnd.randint(0, min(len(hist), h - 1)) if h > 1 else 0
        ops = [{"op": "resize", "w": w, "h": h}]
        view = [R.rand_line(rnd, w) for _ in range(rnd.randint(1, h))]
        alt = False
        for _ in range(rnd.choice([3, 6, 10, 16])):
            c = rnd.random()
            if c < 0.45:
                body = R.join_view([R.rand_print_line(rnd, w) for _ in range(rnd.choice([1, 1, 2, 3]))])
                ops.append({"op": "print", "s": body})
                if rnd.random() < 0.7:
                    if rnd.random() < 0.5:
                        view = R.mutate_view(rnd, view, w, h)
                    ops += [{"op": "write", "s": R.join_view(view)}, {"op": "flush"}]
            elif c < 0.8:
                view = R.mutate_view(rnd, view, w, h)
                ops += [{"op": "write", "s": R.join_view(view)}, {"op": "flush"}]
            elif c < 0.9:
                ops.append({"op": "exitalt" if alt else "enteralt"})
                alt = not alt
                ops += [{"op": "write", "s": R.join_view(view)}, {"op": "flush"}]
            else:
                ops.append({"op": "flush"})
        if alt:
            ops.append({"op": "exitalt"})
        ops += [{"op": "write", "s": R.join_view(view)}, {"op": "flush"}]
        cases.append({"w0": w, "h0": h, "history": hist, "used": used, "ops": ops})
    # every printed width class over full-screen views at every initial cursor row
    for w, h in ((10, 3), (4, 4)):
        for used in range(0, h):
            for plen in (0, 1, w - 1, w, w + 1, 2 * w, 2 * w + 3):
                full = [[120] * w] * h
                ops = [{"op": "resize", "w": w, "h": h}, {"op": "write", "s": R.join_view(full)}, {"op": "flush"},
                       {"op": "print", "s": [97 + (i % 26) for i in range(plen)]}, {"op": "write", "s": R.join_view(full)}, {"op": "flush"},
                       {"op": "print", "s": [65, 10, 66]}, {"op": "write", "s": R.join_view(full[:1])}, {"op": "flush"}]
                cases.append({"w0": w, "h0": h, "history": [[46] * w] * max(used, 1), "used": used, "ops": ops})
    return cases


def run(res, tier, seed):
    rnd = random.Random(seed * 4001 + 14)
    return R.run_family(res, "C14", PROPS, gen(rnd, tier),
                        rule="print-heavy histories (single/multi-line, widths 0,1,W-1,W,W+1,2W,2W+3) interleaved with views of every height up to H (printing scrolls), initial rows above and initial cursor row varied, prints while the alt screen is active (discarded); oracle = rows above the view must equal initial rows ++ wrapped printed lines, in order, after every render; distinct = distinct (ops, initial rows)")


def replay(res, path):
    return R.replay_family(res, "C14", PROPS, path)
