"""C14 — printed lines appear once, in order, above the view, never overwritten."""
import random
from .. import renderer as R

PROPS = ["C14", "C14_thms"]


def gen(rnd, tier):
    n = 380 if tier == "quick" else 15000
    cases = []
    for _ in range(n):
        # print-heavy histories; views of every height up to H so that printing scrolls
        w, h = rnd.choice([(rnd.randint(1, 12), rnd.randint(1, 8))] * 5 + [(10, 3), (80, 24), (4, 2)])
        hist = [[rnd.choice(R.ALPHA) for _ in range(w)] for _ in range(rnd.randint(0, 3))]
        used = rnd.randint(0, min(len(hist), h - 1)) if h > 1 else 0
        ops = [{"op": "resize", "w": w, "h": h}]
        view = [R.rand_line(rnd, w) for _ in range(rnd.randint(1, h))]
        alt = False
        for _ in range(rnd.choice([3, 6, 10, 16])):
            c = rnd.random()
            if c < 0.45:
                body = R.join_view([R.rand_print_line(rnd, w) for _ in range(rnd.choice([1, 1, 2, 3]))])
                ops.append({"op": "print", "s": body})
                if rnd.random() < 0.7:
                    if rnd.random() < 0.5:
                        view = R.mutate_view(rnd, view, w, h)
                    ops += [{"op": "write", "s": R.join_view(view)}, {"op": "flush"}]
            elif c < 0.8:
                view = R.mutate_view(rnd, view, w, h)
                ops += [{"op": "write", "s": R.join_view(view)}, {"op": "flush"}]
            elif c < 0.9:
                ops.append({"op": "exitalt" if alt else "enteralt"})
                alt = not alt
                ops += [{"op": "write", "s": R.join_view(view)}, {"op": "flush"}]
            else:
                ops.append({"op": "flush"})
        if alt:
            ops.append({"op": "exitalt"})
        ops += [{"op": "write", "s": R.join_view(view)}, {"op": "flush"}]
        cases.append({"w0": w, "h0": h, "history": hist, "used": used, "ops": ops})
    # lines printed on the main screen with a frame pending, then the alt screen entered before the next flush: they are
    # written out before the switch (F20) and are above the view after the return to the main screen
    for w, h in ((10, 4), (6, 3), (12, 6), (4, 2)):
        for plen in (1, w - 1, w, w + 1, 2 * w + 1):
            for nview in (1, h):
                view = [R.rand_line(rnd, w) for _ in range(nview)]
                view2 = R.mutate_view(rnd, view, w, h)
                ops = [{"op": "resize", "w": w, "h": h}, {"op": "write", "s": R.join_view(view)}, {"op": "flush"},
                       {"op": "print", "s": [97 + (i % 26) for i in range(plen)]}, {"op": "write", "s": R.join_view(view2)},
                       {"op": "enteralt"}, {"op": "write", "s": R.join_view(view2)}, {"op": "flush"},
                       {"op": "print", "s": [88, 88]},                      # printed in the alt screen: discarded
                       {"op": "exitalt"}, {"op": "write", "s": R.join_view(view)}, {"op": "flush"}]
                cases.append({"w0": w, "h0": h, "history": [[46] * w], "used": min(1, h - 1), "ops": ops})
    # every printed width class over full-screen views at every initial cursor row
    for w, h in ((10, 3), (4, 4)):
        for used in range(0, h):
            for plen in (0, 1, w - 1, w, w + 1, 2 * w, 2 * w + 3):
                full = [[120] * w] * h
                ops = [{"op": "resize", "w": w, "h": h}, {"op": "write", "s": R.join_view(full)}, {"op": "flush"},
                       {"op": "print", "s": [97 + (i % 26) for i in range(plen)]}, {"op": "write", "s": R.join_view(full)}, {"op": "flush"},
                       {"op": "print", "s": [65, 10, 66]}, {"op": "write", "s": R.join_view(full[:1])}, {"op": "flush"}]
                cases.append({"w0": w, "h0": h, "history": [[46] * w] * max(used, 1), "used": used, "ops": ops})
    return cases


def program_family(res, tier, rnd):
    """whole Programs: lines printed through the public API (Println / Printf commands and Program methods), with text
    that would be mangled by an accidental second formatting pass, appear verbatim, once, in order"""
    from .. import program as P
    from .. import common as C
    okb, out = C.build_harness()
    if not okb:
        raise C.Fail("harness build failed:\n" + out[-2000:])
    texts = ["progress: 100% done", "50%", "a %s b %d c", "plain line", "100%% sure", "tab\there", "x" * 30]
    scs, metas = [], []
    for rep in range(3 if tier == "quick" else 20):
        chosen = [rnd.choice(texts) + " #%d" % k for k in range(rnd.randint(1, 5))]
        script = [P.W("started"), P.W("idle")]
        for k, t in enumerate(chosen):
            how = rnd.choice(["msg", "println", "printf"])
            if how == "msg":
                script.append(P.DO("send", msg=P.B("print", s=t)))
            else:
                script += [P.DO("api", kind=how, n=1, label=t), P.W("api")]
            script += [P.DO("send", msg=P.U(k)), P.W("idle")]
        script += [P.DO("quit"), P.W("returned")]
        scs.append(P.scenario(len(scs), script, opts={"fps": 120}, parallel_ok=True, watchdog_ms=4000))
        metas.append({"texts": chosen})
    results, _ = P.run_scenarios("C14_prog", scs, timeout=600)
    bad = []
    for m, r in zip(metas, results):
        if P.machinery_problem(r) or not r["run_returned"]:
            bad.append((m, "scenario did not complete"))
            continue
        out_b = bytes(r["output"])
        pos = -1
        for t in m["texts"]:
            n = out_b.count(t.encode())
            i = out_b.find(t.encode())
            if n != 1:
                bad.append((m, "the printed line %r appears %d times in the output" % (t, n)))
                break
            if i < pos:
                bad.append((m, "printed lines appear out of order"))
                break
            pos = i
    # ... and they are still on the screen afterwards, also when the terminal was handed to an external command and taken
    # back in between (the output replayed on a terminal: lib/widevt.py)
    from .. import widevt as W
    scs2, metas2 = [], []
    for rep in range(4 if tier == "quick" else 30):
        lines = ["log line %d of run %d" % (k, rep) for k in range(rnd.randint(2, 5))]
        how = ["exec", "exec-fast", "release-restore", "none"][rep % 4]
        script = [P.W("started"), P.W("idle")]
        for t in lines:
            script += [P.DO("send", msg=P.B("print", s=t))]
        script += [P.DO("send", msg=P.U(1)), P.DO("sleep", us=30000), P.W("idle")]
        if how == "exec":
            script += [P.DO("send", msg=P.B("exec", cb=True)), P.DO("sleep", us=60000), P.W("idle")]
        elif how == "exec-fast":
            script += [P.DO("send", msg=P.B("exec", fast=True)), P.DO("sleep", us=60000), P.W("idle")]
        elif how == "release-restore":
            script += [P.DO("release-terminal"), P.DO("sleep", us=20000), P.DO("restore-terminal"), P.DO("sleep", us=40000), P.W("idle")]
        script += [P.DO("send", msg=P.U(2)), P.DO("sleep", us=30000), P.W("idle"), P.DO("quit"), P.W("returned")]
        scs2.append(P.scenario(len(scs2), script, opts={"fps": 120}, inp={"kind": "pipe"}, parallel_ok=True, watchdog_ms=4000))
        metas2.append({"lines": lines, "how": how})
    results2, _ = P.run_scenarios("C14_prog2", scs2, timeout=600)
    for m, r in zip(metas2, results2):
        if P.machinery_problem(r) or not r["run_returned"]:
            bad.append((m, "scenario did not complete"))
            continue
        vt = W.VT(80, 24)
        if not vt.feed(bytes(r["output"])):
            bad.append((m, "the output could not be replayed on the terminal"))
            continue
        rows = [x for x in vt.window() if x]
        want = m["lines"]
        got = [x for x in rows if x.startswith("log line")]
        if got != want:
            bad.append((m, "printed lines %r; after the run (%s in between) the screen shows %r" % (want, m["how"], rows[:10])))
    res.oblige("Spec on real Programs: lines printed with Println / Printf (commands and Program methods, texts containing '%%') appear verbatim, once, in order, and stay on the screen across an external command / release and restore (%d programs)" % (len(scs) + len(scs2)),
               not bad, bad[:2])
    for m, what in bad[:1]:
        res.violation("C14:program-print", what, {"scenario_meta": m})
    res.coverage["program_family"] = len(scs)
    # a line printed on the main screen, then the alt screen entered before the next frame, then the program ends while
    # still in the alt screen (finding F20, repaired: the line used to wait in the renderer's queue, which is only written
    # out while the main screen is active, and shutdown leaves the alt screen after the last flush)
    scs3, metas3 = [], []
    for fps, then in ((1, "quit"), (1, "update-quit"), (2, "quit")):
        t = "line printed before the alt screen (fps %d, %s)" % (fps, then)
        script = [P.W("started"), P.W("idle"), P.DO("send", msg=P.B("print", s=t)), P.DO("send", msg=P.B("enteralt"))]
        if then == "update-quit":
            script += [P.DO("send", msg=P.U(5))]
        script += [P.DO("quit"), P.W("returned")]
        scs3.append(P.scenario(len(scs3), script, opts={"fps": fps}, parallel_ok=True, watchdog_ms=5000))
        metas3.append({"text": t, "fps": fps, "then": then})
    results3, _ = P.run_scenarios("C14_prog3", scs3, timeout=600)
    lost = []
    for m, r in zip(metas3, results3):
        if P.machinery_problem(r) or not r["run_returned"]:
            raise C.Fail("C14 alt-screen scenario did not complete: %s" % P.summarize(r))
        n = bytes(r["output"]).count(m["text"].encode())
        m["times_in_output"] = n
        if n != 1:
            lost.append((m, "Println(%r) while the main screen was active, EnterAltScreen before the next frame, then the program ended: the line appears %d times in the output" % (m["text"], n)))
    res.coverage["print_then_altscreen_then_exit"] = metas3
    res.oblige("Spec on real Programs: a line printed on the main screen survives EnterAltScreen before the next frame and the program ending in the alt screen (%d programs)" % len(scs3),
               not lost, [w for _, w in lost[:2]])
    for m, what in lost[:1]:
        res.violation("C14:print-then-altscreen-then-exit", what, {"scenario_meta": m})


def wide_family(res, tier, rnd):
    """printed lines with double-width runes, accented letters and SGR styling (outside the Coq theorems' alphabet): the
    real renderer's bytes through lib/widevt.py (cell widths, pending wrap, scrollback); after every render everything
    from the top of the scrollback to the cursor row is: the wrapped printed lines in order, then the view"""
    import json
    import os
    from .. import common as C
    from .. import widevt as W
    okb, out = C.build_harness()
    if not okb:
        raise C.Fail("harness build failed:\n" + out[-2000:])
    glyphs = ["a", "b", "x", "0", " ", "\u00e9", "\u4e16", "\u754c", "\u65e5", "\u672c", "\uff57"]

    def text(n):
        s = ""
        while W.width(s) < n:
            s += rnd.choice(glyphs)
        s = s.rstrip(" ") or "x"
        if rnd.random() < 0.2:
            s = "\x1b[1;35m" + s[:len(s) // 2] + "\x1b[0m" + s[len(s) // 2:]
        return s
    cases = []
    for i in range(250 if tier == "quick" else 6000):
        w, h = rnd.choice([(5, 6), (6, 4), (10, 5), (12, 6), (7, 8), (20, 6)])
        ops = [{"op": "resize", "w": w, "h": h}]
        nv = rnd.randint(1, max(1, h - 2))
        view = [text(rnd.choice([1, w // 2, w - 1, w])) for _ in range(nv)]
        ops += [{"op": "write", "s": list("\n".join(view).encode())}, {"op": "flush"}]
        prints, checks = [], []
        for k in range(rnd.choice([1, 2, 3])):
            for _ in range(rnd.choice([1, 1, 2])):
                ln = text(rnd.choice([1, w - 1, w, w + 1, w + 2, 2 * w - 1, 2 * w, 2 * w + 1, 3 * w]))
                prints.append(ln)
                ops.append({"op": "print", "s": list(ln.encode())})
            if rnd.random() < 0.5:
                view = [(text(rnd.choice([1, w // 2, w - 1, w])) if rnd.random() < 0.5 else l) for l in view]
            ops += [{"op": "write", "s": list("\n".join(view).encode())}, {"op": "flush"}]
            checks.append((len(ops) - 1, list(prints), list(view)))
        cases.append({"id": i, "ops": ops, "w": w, "h": h, "checks": checks})
    ip, op_ = os.path.join(C.CASES, "C14_wide.in.jsonl"), os.path.join(C.CASES, "C14_wide.out.jsonl")
    with open(ip, "w") as f:
        for c in cases:
            f.write(json.dumps({"id": c["id"], "ops": c["ops"]}) + "\n")
    rc, out, _ = C.run_harness(["renderer", "-out", op_, ip], timeout=600)
    if rc != 0:
        raise C.Fail("renderer harness failed: " + out[-1000:])
    outs = C.read_jsonl(op_)
    bad, untok = [], 0
    for c, o in zip(cases, outs):
        if o.get("panic"):
            bad.append((c, "the renderer panicked: %s" % o["panic"]))
            continue
        vt = W.VT(c["w"], c["h"])
        chk = {k: (p, v) for k, p, v in c["checks"]}
        for k, b in enumerate(o["outs"]):
            if not vt.feed(bytes(b)):
                untok += 1
                break
            if k in chk:
                prints, view = chk[k]
                want = [r for ln in prints for r in W.wrap(ln, c["w"])] + W.expected_rows("\n".join(view), c["w"], c["h"])
                scr = vt.s
                got = scr.hist + [scr.text(i) for i in range(scr.r + 1)]
                below = [scr.text(i) for i in range(scr.r + 1, c["h"])]
                if got != want or any(below):
                    bad.append((c, "printed %r over a %dx%d terminal; from the top of the scrollback to the cursor row the terminal shows %r (below: %r), expected the printed lines then the view: %r" %
                                (prints, c["w"], c["h"], got, below, want)))
                    break
    res.oblige("exploration beyond the theorems' alphabet (printed lines with double-width runes, accented letters, SGR styling; Python terminal with cell widths and scrollback, not Coq): after every render the printed lines stand intact, in order, above the view, %d histories" % len(cases),
               not bad and not untok, [b[1] for b in bad[:2]] or untok)
    for c, what in bad[:1]:
        res.violation("C14:wide-print", what, {"wide_case": {"ops": c["ops"], "w": c["w"], "h": c["h"]}})
    res.coverage["wide_family"] = {"histories": len(cases), "printed_lines": sum(len(c["checks"][-1][1]) for c in cases)}


def run(res, tier, seed):
    wide_family(res, tier, random.Random(seed * 1019 + 14))
    rnd = random.Random(seed * 4001 + 14)
    program_family(res, tier, rnd)
    return R.run_family(res, "C14", PROPS, gen(rnd, tier),
                        rule="print-heavy histories (single/multi-line, widths 0,1,W-1,W,W+1,2W,2W+3) interleaved with views of every height up to H (printing scrolls), initial rows above and initial cursor row varied, prints while the alt screen is active (discarded); oracle = rows above the view must equal initial rows ++ wrapped printed lines, in order, after every render; distinct = distinct (ops, initial rows)")


def replay(res, path):
    return R.replay_family(res, "C14", PROPS, path)
