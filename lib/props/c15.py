"""C15 — input longer than the read buffer decodes as if it had arrived in one piece."""
import random
from .. import decoder as D


def kinds(rnd):
    """one event of every kind the property names (and a few more)"""
    return [("runes", [0xE9]), ("runes", [0x20AC]), ("runes", [0x1F600]), ("runes", [0xFFFD]), ("runes", [97, 0x4E2D, 98]),
            ("key", rnd.randrange(len(D.ref())), False), ("key", 0, False), ("key", 20, False),
            ("key", next(i for i, e in enumerate(D.ref()) if not e[2] and len(e[0]) >= 6), True),
            ("sgr", 35, 100, 20, False), ("sgr", 0, 5, 5, True), ("x10", 32, 10, 10), ("x10", 3, 223, 1),
            ("paste", [104, 105, 27, 91, 65]), ("paste", []), ("ctl", 13, False), ("ctl", 127, True), ("nul", True), ("space", True),
            ("altrune", 0xE9), ("altrune", 120), ("altesc",), ("csi", [49, 50, 59, 49, 50, 48], [], 82), ("csi", [63, 50, 48, 50, 54, 59, 50], [36], 121)]


def pad(rnd, n, style):
    """n bytes of complete events that never merge with what follows"""
    out = []
    if style == 0:      # plain letters ending in a control byte
        return [("runes", [97 + (i % 26) for i in range(n - 1)]), ("ctl", 13, False)] if n >= 2 else ([("ctl", 13, False)] if n == 1 else [])
    evs = []
    left = n
    while left > 0:
        if left >= 4 and style == 1:
            evs.append(("key", 0, False)); left -= len(D.ref()[0][0])   # noqa: E702
            if left < 0:
                return None
        elif left >= 2 and style == 2 and left != 3:
            evs.append(("runes", [0xE9])); evs.append(("ctl", 9, False)) if left >= 3 else None   # noqa: E702
            left -= 3 if left >= 3 else 2
        else:
            evs.append(("ctl", 13, False)); left -= 1   # noqa: E702
    return evs


def gen(rnd, tier):
    cases = []
    # each event kind at each offset around the 256 and 512 boundaries
    offs = range(-13, 2) if tier == "quick" else range(-16, 4)
    bounds = [256] if tier == "quick" else [256, 512, 768]
    for e in kinds(rnd):
        eb = D.encode(e)
        for bnd in bounds:
            for off in offs:
                start = bnd + off
                if start < 0:
                    continue
                for style in ((0,) if tier == "quick" else (0, 1, 2)):
                    pre = pad(rnd, start, style)
                    if pre is None:
                        continue
                    if sum(len(D.encode(x)) for x in pre) != start:
                        continue
                    tail = [("ctl", 13, False), ("runes", [122, 122])] + ([("key", 3, False)] * rnd.choice([0, 70]))
                    evs = pre + [e] + tail
                    if all(D.valid_event(evs[i]) and D.clean(evs[i], [b for x in evs[i + 1:] for b in D.encode(x)]) for i in range(len(evs))):
                        cases.append(D.stream_case(evs, tag="boundary:%s" % e[0]))
    # every documented key (with and without alt) cut just before its last byte, and before its last two, by the first boundary
    for i in range(len(D.ref())):
        for alt in ([False, True] if not D.ref()[i][2] else [False]):
            e = ("key", i, alt)
            eb = D.encode(e)
            for back in (1, 2):
                if len(eb) <= back:
                    continue
                if tier == "quick" and back == 2 and i % 3:
                    continue
                pre = pad(rnd, 256 - (len(eb) - back), 0)
                evs = pre + [e, ("ctl", 13, False), ("runes", [122])]
                if all(D.valid_event(evs[j]) and D.clean(evs[j], [b for x in evs[j + 1:] for b in D.encode(x)]) for j in range(len(evs))):
                    cases.append(D.stream_case(evs, tag="key-last-byte"))
    # far beyond the first boundaries: one unbroken run of text filling 16 (32, 64) reads - everything of it is still
    # pending when the event arrives that straddles the end of the last full read
    far_kinds = [("runes", [0x1F600]), ("key", 0, False), ("sgr", 35, 100, 20, False), ("x10", 32, 10, 10), ("paste", [104, 105]), ("altrune", 0xE9),
                 ("csi", [49, 50, 59, 49, 50, 48], [], 82)]
    for bnd in ([1280, 2560, 4096] if tier == "quick" else [512, 768, 1024, 1280, 1536, 2048, 2560, 3072, 4096, 5120, 8192, 16384]):
        for e in far_kinds:
            for off in ((-3, -2, -1) if tier == "quick" else range(-6, 1)):
                if tier == "quick" and bnd != 4096 and off != -2:
                    continue
                pre = pad(rnd, bnd + off, 0)
                evs = pre + [e, ("ctl", 13, False), ("runes", [122, 122])]
                if all(D.valid_event(evs[i]) and D.clean(evs[i], [b for x in evs[i + 1:] for b in D.encode(x)]) for i in range(len(evs))):
                    c = D.stream_case(evs, tag="far-boundary:%s" % e[0])
                    # everything is pending at once: a reader that asks for more than 256 bytes gets them
                    c["greedy"] = True
                    cases.append(c)
                    if bnd == 4096:
                        cases.append(D.stream_case(evs, tag="far-boundary:%s" % e[0]))
    # random long well-formed streams
    n = 90 if tier == "quick" else 4000
    for _ in range(n):
        evs = D.gen_stream(rnd, rnd.choice([50, 80, 120]))
        cases.append(D.stream_case(evs, tag="random-long"))
    return cases, []


def run(res, tier, seed):
    rnd = random.Random(seed * 65537 + 15)
    cases, dcases = gen(rnd, tier)

    def oracle(case, out):
        return None
    return D.run_family(res, "C15", ["C15", "C15_thms"], cases, dcases,
                        rule="every event kind (multi-byte characters of each length, CSI/SS3 keys, alt-prefixed keys, SGR/X10 reports, pastes, control bytes, unknown CSIs) placed at every offset -13..+1 (quick) around byte 256 (thorough: 256, 512, 768 and three padding styles), read in 256-byte reads, followed by short or long tails; random long well-formed streams; Spec (= one-shot meaning of the events) evaluated on the real output; distinct = distinct byte strings")


def replay(res, path):
    return D.replay_family(res, "C15", ["C15", "C15_thms"], path)
