"""C16 — the message filter sees every message once and its verdict is obeyed."""
import json
import random

from .. import common as C
from .. import program as P

PROPS = ["C16"]
TRUSTED = [
    "L0 event-loop model Model/EvLoop.v: the body of eventLoop for one message, interpreted over the GENERATED dispatch table and statement order (gen/Dispatch.v); Model/FilterPolicy.v = the harness's per-key filter policies",
    "one scripted sender, so the receive order is the send order (the concurrent half is C01); commands in batches never return (no internal traffic)",
]
BK = {"quit": ("KQuit", 0), "interrupt": ("KInterrupt", 1), "clear": ("KClear", 3), "enteralt": ("KEnterAlt", 4), "exitalt": ("KExitAlt", 5),
      "mousecell": ("KMouseCell", 6), "mouseall": ("KMouseAll", 7), "mouseoff": ("KMouseOff", 8), "showcursor": ("KShowCursor", 9),
      "hidecursor": ("KHideCursor", 10), "pasteon": ("KPasteOn", 11), "pasteoff": ("KPasteOff", 12), "focuson": ("KFocusOn", 13),
      "focusoff": ("KFocusOff", 14), "windowsize": ("KWindowSizeQuery", 19)}
PRE = ("From Coq Require Import List Bool NArith Arith String.\nImport ListNotations.\n"
       "From BT Require Import Base.Bytes Model.GenTypes Model.VT Model.Renderer Model.EvLoop Model.FilterPolicy Spec.FilterSpec Spec.Modes Model.Lifecycle.\n"
       "From BTGen Require Dispatch Lifecycle.\n")


def code(spec):
    """message spec -> (coq rmsg term, code, harness key)"""
    if "u" in spec:
        return "RUser %d%%nat" % spec["u"], 1000 + spec["u"], "u:%d" % spec["u"]
    b = spec["b"]
    if b in BK:
        return "RB %s" % BK[b][0], BK[b][1], "b:" + b
    if b == "batch":
        return "RBatch [%s]" % "; ".join("%d%%nat" % c["id"] for c in spec["cmds"]), 16, "b:batch"
    if b == "sequence":
        return "RSequence []", 17, "b:sequence"
    if b == "title":
        return "RTitle %s" % C.zlist(list(spec["s"].encode())), 18, "b:title"
    if b == "print":
        return "RPrint %s" % C.zlist(list(spec["s"].encode())), 30, "b:print"
    if b == "windowsizemsg":
        return "RWindowSize %d%%nat %d%%nat" % (spec["w"], spec["h"]), 31, "b:windowsizemsg"
    if b == "repaint":
        return "RRepaint", 32, "b:repaint"
    raise ValueError(spec)


def key_code(key):
    if key.startswith("u:"):
        return 1000 + int(key[2:])
    if key.startswith("ws:"):
        return 31
    k = key[2:]
    if k in BK:
        return BK[k][1]
    return {"batch": 16, "sequence": 17, "title": 18, "print": 30, "windowsizemsg": 31, "repaint": 32}.get(k, 9999)


def rand_msg(rnd, next_id, allow_end=True):
    x = rnd.random()
    if x < 0.35:
        return P.U(rnd.randint(1, 6))
    if x < 0.65:
        return P.B(rnd.choice([k for k in BK if k not in ("quit", "interrupt")]))
    if x < 0.72 and allow_end:
        return P.B(rnd.choice(["quit", "interrupt"]))
    if x < 0.80:
        n = rnd.randint(0, 3)
        ids = [next_id[0] + j for j in range(n)]
        next_id[0] += n
        return P.B("batch", cmds=[P.cmd(i, block="forever") for i in ids])
    if x < 0.86:
        next_id[1] += 1
        return P.B("print", s="P%d#" % next_id[1])      # unique body: its presence in the output is attributable
    if x < 0.92:
        w, h = rnd.choice([(0, 0), (40, 10), (40, 10), (rnd.randint(1, 90), rnd.randint(1, 30))])   # repeats are likely
        return P.B("windowsizemsg", w=w, h=h)
    if x < 0.94:
        return P.B("title", s="t%d" % rnd.randint(0, 9))
    if x < 0.97:
        return P.B("repaint")
    return P.B("sequence", cmds=[])


def gen(tier, rnd):
    cases = []
    n = 120 if tier == "quick" else 4000
    for i in range(n):
        next_id = [100, 0]
        msgs = [rand_msg(rnd, next_id, allow_end=(j > 2)) for j in range(rnd.choice([1, 3, 6, 10, 16]))]
        keys = sorted({code(m)[2] for m in msgs})
        pol = {}
        mode = rnd.random()
        if mode < 0.1:
            flt = None          # no filter installed
        else:
            flt = {}
            for k in keys:
                x = rnd.random()
                if x < 0.25:
                    pol[k] = None                                 # drop
                elif x < 0.55:
                    pol[k] = rand_msg(rnd, next_id)               # replace (any kind, incl. quit / interrupt / batch / mode messages)
            flt = {"drop": [k for k, v in pol.items() if v is None], "replace": {k: v for k, v in pol.items() if v is not None}}
        o = {}
        if rnd.random() < 0.3:
            o["alt"] = True
        if rnd.random() < 0.3:
            o["mouse"] = rnd.choice(["cell", "all"])
        cases.append({"msgs": msgs, "filter": flt, "opts": o})
    return cases


def scenarios(cases):
    scs = []
    for i, c in enumerate(cases):
        script = [P.W("started"), P.W("idle")]
        for m in c["msgs"]:
            script.append(P.DO("send", msg=m))
        script += [P.W("idle"), P.DO("kill"), P.W("returned")]    # (a final quit could be swallowed by the policy)
        o = dict(c["opts"], fps=120)
        if c["filter"] is not None:
            o["filter"] = c["filter"]
        scs.append(P.scenario(i, script, opts=o, parallel_ok=True, watchdog_ms=3000))
    return scs


def coq_policy(flt):
    if flt is None:
        return "None"
    ents = []
    for k in flt["drop"]:
        ents.append("(%d%%N, None)" % key_code(k))
    for k, v in flt["replace"].items():
        ents.append("(%d%%N, Some (%s))" % (key_code(k), code(v)[0]))
    return "(Some [%s])" % "; ".join(ents)


def observe(c, r):
    """projected real log up to (excluding) the harness's own final quit"""
    n_sent = len(c["msgs"])
    evs = r["events"]
    filt, upd, fev = [], [], []
    cur = None
    nfilter = 0
    has_filter = c["filter"] is not None
    for e in evs:
        if e["ev"] == "FilterBegin":
            nfilter += 1
            if nfilter > n_sent:
                break
            cur = (e["ver"], key_code(e["key"]))
            filt.append(cur)
        elif e["ev"] == "FilterEnd" and cur is not None:
            v = e.get("verdict", "nil")
            fev.append("FFilter %d%%nat %d%%N %s" % (cur[0], cur[1], "None" if v == "nil" else "(Some %d%%N)" % key_code(v)))
            cur = None
        elif e["ev"] == "UpdateBegin":
            if not has_filter and len(upd) >= n_sent:
                break
            upd.append((e["ver"], key_code(e["key"])))
            fev.append("FUpdate %d%%nat %d%%N" % (e["ver"], key_code(e["key"])))
    started = sorted(e["id"] for e in evs if e["ev"] == "CmdStart" and e["id"] >= 100)
    return filt, upd, fev, started


def run(res, tier, seed):
    rnd = random.Random(seed * 7919 + 16)
    proofs_ok, broken = C.proof_obligations(res, PROPS, extra_targets=["theories/Model/FilterPolicy.vo", "theories/Spec/FilterSpec.vo", "theories/Model/Lifecycle.vo", "theories/Spec/Modes.vo"])
    okb, out = C.build_harness()
    if not okb:
        raise C.Fail("harness build failed (does /repo still compile with -tags verif?):\n" + out[-3000:])
    cases = gen(tier, rnd)
    results, dt = P.run_scenarios("C16", scenarios(cases))
    if tier == "thorough":
        # the other direction of the correspondence (code within model), see lib/lifecycle.trace_inclusion
        from .. import lifecycle as _L
        _scs = scenarios(cases)
        _stuck = _L.trace_inclusion(res, "C16", [(a, {"cause": "?", "point": "?"}, b) for a, b in zip(_scs, results)], 16)
        if _stuck:
            res.violation("C16:obligation:trace", "the callback sequence of a real run is not a path of the control skeleton (observation %d)" % _stuck[0][3],
                          {"scenario": _stuck[0][0], "observations": _L.observations(_stuck[0][0], _stuck[0][2])[1]}, found_input=False)
    mach = [(c, r) for c, r in zip(cases, results) if P.machinery_problem(r) or not r["run_returned"]]
    res.oblige("harness: every scenario ran as scripted (%d)" % len(cases), not mach, [(c, P.summarize(r)) for c, r in mach[:1]])
    rows = []
    for i, (c, r) in enumerate(zip(cases, results)):
        res.count((json.dumps(c["msgs"], sort_keys=True), json.dumps(c["filter"], sort_keys=True)))
        filt, upd, fev, started = observe(c, r)
        pl = lambda l: "[" + "; ".join("(%d%%nat, %d%%N)" % x for x in l) + "]"   # noqa: E731
        # the error class and the mode tokens written before the loop ended
        err = {"nil": "Some XNil", "interrupted": "Some XInterrupted", "killed": "None"}.get(r["run_err"], "Some XNil")
        rows.append("(%d%%N, %s, %s, [%s], [%s], (%s, %s, [%s], %s, %s))" % (
            i, P_coq_opts(c["opts"]), coq_policy(c["filter"]), "; ".join(code(m)[0] for m in c["msgs"]),
            "; ".join("%d%%N" % code(m)[1] for m in c["msgs"]), pl(filt), pl(upd), "; ".join("%d%%nat" % s for s in started), err,
            P.coq_mode_toks(P.mode_tokens(r["output"]))))
        c["_fev"] = fev
    rows_def = "Definition rows : list rowT := [%s]."
    body = ["Definition dm := map sc_call BTGen.Lifecycle.disable_mouse_calls.",
            "Definition rowT := (N * opts * option policy * list (rmsg nat) * list N * (list (nat * N) * list (nat * N) * list nat * option exit_err * list tok))%type.",
            "Definition pair_eqb (a b : nat * N) := (fst a =? fst b)%nat && (snd a =? snd b)%N.",
            "Fixpoint leqb {A} (e : A -> A -> bool) (a b : list A) := match a, b with [], [] => true | x :: a', y :: b' => e x y && leqb e a' b' | _, _ => false end.",
            "Fixpoint prefixb {A} (e : A -> A -> bool) (a b : list A) := match a, b with [], _ => true | x :: a', y :: b' => e x y && prefixb e a' b' | _, _ => false end.",
            "Definition same_multiset (a b : list nat) := forallb (fun x => (count_occ Nat.eq_dec a x =? count_occ Nat.eq_dec b x)%nat) (a ++ b).",
            "Definition tok_eqb (a b : tok) := match a, b with TSet x, TSet y | TReset x, TReset y => (x =? y)%N | _, _ => false end.",
            "Definition exit_eqb (a b : option exit_err) := match a, b with None, None | Some XNil, Some XNil | Some XInterrupted, Some XInterrupted => true | _, _ => false end.",
            # after the harness's own final quit the exit is XNil when the model had not exited
            "Definition model_row (x : rowT) : bool := let '(_, o, pol, ms, _, (rf, ru, rs, rex, rmodes)) := x in "
            "let '(r0, t0, ok) := startup BTGen.Lifecycle.run_calls dm o r_init in "
            "let ob := l0_observe BTGen.Dispatch.dispatch dm pol r0 t0 ms in "
            "ok && leqb pair_eqb (ob_filter ob) rf && leqb pair_eqb (ob_update ob) ru && same_multiset (ob_spawned ob) rs && "
            "exit_eqb (ob_exit ob) rex && prefixb tok_eqb (ob_modes ob) rmodes.",
            "Definition bad_model := map (fun x => fst (fst (fst (fst (fst x))))) (filter (fun x => negb (model_row x)) rows)."]
    # (rows refers to rowT: keep the type definition ahead of the rows in every shard)
    head = [b for b in body if b.startswith("Definition dm") or b.startswith("Definition rowT")]
    rest = [b for b in body if b not in head]
    bad_model, _ = C.coq_eval_sharded("cases_C16", PRE + "\n".join(head) + "\n", rows, rows_def, rest, "bad_model", shard=150)
    # the Spec, independent of the model, on the real callback log
    frows = ["(%d%%N, [%s], [%s])" % (i, "; ".join("%d%%N" % code(m)[1] for m in c["msgs"]), "; ".join(c["_fev"]))
             for i, c in enumerate(cases) if c["filter"] is not None]
    frows_def = "Definition frows : list (N * list N * list fev) := [%s]."
    body2 = ["Definition bad_spec := map (fun x => fst (fst x)) (filter (fun x => negb (filter_log_ok (snd (fst x)) 0%nat (snd x))) frows)."]
    bad_spec, _ = C.coq_eval_sharded("cases_C16_spec", PRE, frows, frows_def, body2, "bad_spec", shard=200)
    fidx = [i for i, c in enumerate(cases) if c["filter"] is not None]
    for c in cases:
        c.pop("_fev", None)
    res.oblige("Spec on real logs (Coq: Spec.FilterSpec.filter_log_ok): consulted once per message, in order, with the current model; nil leaves no trace; a verdict is treated as if sent, %d filtered programs" % len(frows),
               not bad_spec, [cases[i] for i in bad_spec[:1]])
    res.oblige("K2: L0 model = real program on filter log, Update log, spawned commands, exit error, mode tokens, %d programs" % len(cases),
               not bad_model, [cases[i] for i in bad_model[:1]])
    # built-in effects that live in the renderer: a printed line appears in the output only if its message was a verdict
    bad_print = []
    for i, (c, r) in enumerate(zip(cases, results)):
        if c["filter"] is None:
            continue
        out_b = bytes(r["output"])
        verdict_bodies = set()
        for m in c["msgs"]:
            v = apply_policy(c["filter"], m)
            if v is not None and v.get("b") == "print":
                verdict_bodies.add(v["s"])
            if v is not None and v.get("b") in ("quit", "interrupt"):
                break
        all_bodies = {m["s"] for m in c["msgs"] if m.get("b") == "print"} | {v["s"] for v in c["filter"]["replace"].values() if v.get("b") == "print"}
        leaked = sorted(b for b in all_bodies - verdict_bodies if b.encode() in out_b)
        if leaked:
            bad_print.append((i, leaked))
    res.oblige("Spec on real output: a print message suppressed or replaced by the filter leaves nothing on the screen", not bad_print, bad_print[:2])
    # messages that do not come from Send callers go through the filter as well: the message of an Exec callback, and
    # the message the signal handler forwards
    extra_bad = extra_families(res, tier, rnd)
    found = False
    for sig, what, payload in extra_bad[:1]:
        res.violation(sig, what, payload)
        found = True
    for i, leaked in bad_print[:1]:
        res.violation("C16:suppressed-effect", "a message the filter suppressed (or replaced) still had its built-in effect: printed line(s) %s appear in the output" % leaked,
                      {"case": cases[i], "leaked": leaked})
        found = True
    for i in bad_spec[:1]:
        res.violation("C16:filter-log", "the filter was not consulted exactly once per message with the current model, or its verdict was not obeyed",
                      {"case": cases[i], "events": [(e["ev"], e.get("key"), e.get("ver"), e.get("verdict")) for e in results[i]["events"] if e["ev"] in ("FilterBegin", "FilterEnd", "UpdateBegin")]})
        found = True
    if not found:
        # a verdict obeyed in the log but not in its built-in effect (mode output, exit, commands): model mismatch on a filtered
        # program whose unfiltered twin agrees is a failure of "treated exactly as if it had been sent"
        for i in bad_model[:1]:
            if cases[i]["filter"] is not None:
                twin = twin_case(cases[i])
                if twin is not None:
                    tr, _ = P.run_scenarios("C16_twin", scenarios([twin]))
                    a = effects(cases[i], results[i])
                    b = effects(twin, tr[0])
                    if a != b:
                        res.violation("C16:effects", "a program with a filter does not behave as the program without filter fed the messages the filter returned (built-in effects differ)",
                                      {"case": cases[i], "twin": twin, "effects_with_filter": a, "effects_of_twin": b})
                        found = True
    if not found and (not proofs_ok or bad_model):
        res.violation("C16:obligation", "proof obligation or model/implementation correspondence broken (%s; %d programs differ from the L0 model); the Spec held on all real logs" % (broken, len(bad_model)),
                      {"broken": broken, "mismatching_cases": [cases[i] for i in bad_model[:3]], "searched": "%d programs" % len(cases)}, found_input=False)
    res.coverage["input_distribution"] = {
        "programs": len(cases), "with_filter": sum(1 for c in cases if c["filter"] is not None),
        "history_lengths": {str(k): sum(1 for c in cases if len(c["msgs"]) == k) for k in sorted({len(c["msgs"]) for c in cases})},
        "verdicts": {"drop": sum(len(c["filter"]["drop"]) for c in cases if c["filter"]), "replace": sum(len(c["filter"]["replace"]) for c in cases if c["filter"])},
        "message_kinds": {k: sum(1 for c in cases for m in c["msgs"] if code(m)[2].split(":")[0] + ":" + (m.get("b") or "user") == k) for k in sorted({code(m)[2].split(":")[0] + ":" + (m.get("b") or "user") for c in cases for m in c["msgs"]})},
        "replacement_kinds": {k: sum(1 for c in cases if c["filter"] for v in c["filter"]["replace"].values() if (v.get("b") or "user") == k) for k in sorted({(v.get("b") or "user") for c in cases if c["filter"] for v in c["filter"]["replace"].values()})},
    }
    res.coverage["traces_validated_against_impl"] = len(cases)
    res.samples = [{"msgs": [code(m)[2] for m in c["msgs"]], "filter": c["filter"]} for c in cases[:4]]
    return res.finish(rule="random message histories (user, every mode message, quit, interrupt, batch, sequence, print, window size, title, repaint) x random per-key policies (drop / replace by any kind / keep) x options; one sender; distinct = (history, policy)",
                      trusted_extra=TRUSTED)


def extra_families(res, tier, rnd):
    scs, metas = [], []
    for verdict in ("drop", "replace", "keep"):
        for ok in (True, False):
            flt = {"drop": ["u:9000"]} if verdict == "drop" else {"replace": {"u:9000": P.U(77)}} if verdict == "replace" else {}
            script = [P.W("started"), P.W("idle"), P.DO("send", msg=P.B("exec", cb=True, ok=ok)), P.DO("sleep", us=60000), P.W("idle"),
                      P.DO("send", msg=P.U(5)), P.W("idle"), P.DO("kill"), P.W("returned")]
            scs.append(P.scenario(len(scs), script, opts={"fps": 120, "filter": flt}, parallel_ok=True, watchdog_ms=4000))
            metas.append({"family": "exec-callback", "verdict": verdict, "ok": ok})
    for sig in ("int", "term"):
        # a filter that vetoes quit requests: every signal is swallowed, the program goes on
        script = [P.W("started"), P.W("idle"), P.DO("sleep", us=20000)]
        for k in range(3):
            script += [P.DO("signal", sig=sig), P.DO("sleep", us=50000), P.DO("send", msg=P.U(40 + k)), P.W("idle")]
        script += [P.DO("kill"), P.W("returned")]
        scs.append(P.scenario(len(scs), script, opts={"fps": 120, "nosighandler": False, "filter": {"drop": ["b:interrupt", "b:quit"]}}, isolate=True, watchdog_ms=4000))
        metas.append({"family": "signal-veto", "sig": sig})
    for depth in (1, 2):
        for verdict in ("keep", "drop-inner", "drop-all"):
            # a Sequence whose second element is itself a Sequence (depth 2: that one contains a third): every sequence
            # request is a message of its own, shown to the filter; one that is dropped runs none of its commands
            def seq(d, base):
                inner = [P.cmd(base + 1, ret=P.U(7000 + base + 1))]
                if d > 0:
                    inner.append(seq(d - 1, base + 10))
                inner.append(P.cmd(base + 2, ret=P.U(7000 + base + 2)))
                return {"id": 0, "seq": inner}
            flt = {} if verdict == "keep" else {"drop_after": {"b:sequence": 1}} if verdict == "drop-inner" else {"drop": ["b:sequence"]}
            script = [P.W("started"), P.W("idle"), P.DO("send", msg=P.U(1)), P.DO("sleep", us=40000), P.W("idle"), P.DO("sleep", us=10000), P.W("idle"),
                      P.DO("kill"), P.W("returned")]
            scs.append(P.scenario(len(scs), script, opts={"fps": 120, "filter": flt}, update={"u:1": {"cmd": seq(depth, 100)}}, parallel_ok=True, watchdog_ms=4000))
            metas.append({"family": "nested-sequence", "verdict": verdict, "depth": depth})
    for kind, seq_on in (("enteralt", b"\x1b[?1049h"), ("pasteoff", None), ("focuson", b"\x1b[?1004h")):
        for verdict in ("drop", "keep"):
            # a mode request sent while the application has released the terminal is a message like any other
            flt = {"drop": ["b:" + kind]} if verdict == "drop" else {}
            script = [P.W("started"), P.W("idle"), P.DO("release-terminal"), P.DO("send", msg=P.B(kind)), P.DO("sleep", us=10000), P.W("idle"),
                      P.DO("restore-terminal"), P.DO("sleep", us=30000), P.W("idle"), P.DO("send", msg=P.U(5)), P.W("idle"), P.DO("kill"), P.W("returned")]
            scs.append(P.scenario(len(scs), script, opts={"fps": 120, "filter": flt}, parallel_ok=True, watchdog_ms=4000))
            metas.append({"family": "released-mode", "kind": kind, "verdict": verdict})
    for mode in ("keep", "replace"):
        # messages (and replacements) whose value is a typed nil or an error: a verdict like any other, not a "nil" verdict
        vals = [P.B("tn-slice"), P.B("tn-map"), P.B("tn-ptr"), P.B("tn-func"), P.B("errmsg", w=4)]
        keys = ["tn:slice", "tn:map", "tn:ptr", "tn:func", "err:4"]
        if mode == "keep":
            flt = {}
            sends = [P.DO("send", msg=v) for v in vals]
        else:
            flt = {"replace": {"u:%d" % (70 + i): v for i, v in enumerate(vals)}}
            sends = [P.DO("send", msg=P.U(70 + i)) for i in range(len(vals))]
        script = [P.W("started"), P.W("idle")] + sends + [P.W("idle"), P.DO("kill"), P.W("returned")]
        scs.append(P.scenario(len(scs), script, opts={"fps": 120, "filter": flt}, parallel_ok=True, watchdog_ms=4000))
        metas.append({"family": "unusual-values", "mode": mode, "keys": keys})
    results, _ = P.run_scenarios("C16_extra", scs, timeout=600)
    bad = []
    for m, r in zip(metas, results):
        ev = r["events"]
        if m["family"] == "unusual-values" and not (P.machinery_problem(r) or not r["run_returned"]):
            ub = [e.get("key") for e in ev if e["ev"] == "UpdateBegin"]
            got = [k for k in ub if k.startswith("tn:") or k.startswith("err:")]
            if got != m["keys"]:
                bad.append(("C16:unusual-values", "the filter %s messages whose values are typed nils / an error (%s); Update received %s" %
                            ("kept" if m["mode"] == "keep" else "returned as replacements", m["keys"], got), {"meta": m, "updates": ub}))
            continue
        if m["family"] == "released-mode" and not (P.machinery_problem(r) or not r["run_returned"]):
            fb = [e for e in ev if e["ev"] == "FilterBegin" and e.get("key") == "b:" + m["kind"]]
            ub = [e.get("key") for e in ev if e["ev"] == "UpdateBegin"]
            seq_on = {"enteralt": b"\x1b[?1049h", "focuson": b"\x1b[?1004h"}.get(m["kind"])
            after = bytes(r["output"])       # (these programs start without the mode: its switch-on sequence is not in the start-up output)
            if len(fb) != 1:
                bad.append(("C16:released-mode", "the mode request %s sent while the terminal was released was shown to the filter %d times" % (m["kind"], len(fb)), {"meta": m, "updates": ub}))
            elif m["verdict"] == "drop" and ("b:" + m["kind"] in ub or (seq_on and seq_on in after)):
                bad.append(("C16:released-mode", "the filter dropped the mode request %s (sent while the terminal was released), yet it %s" %
                            (m["kind"], "reached Update" if "b:" + m["kind"] in ub else "took effect on the terminal"), {"meta": m, "updates": ub}))
            elif m["verdict"] == "keep" and ub.count("b:" + m["kind"]) != 1:
                bad.append(("C16:released-mode", "the mode request %s (kept by the filter, sent while the terminal was released) reached Update %d times" % (m["kind"], ub.count("b:" + m["kind"])), {"meta": m, "updates": ub}))
            continue
        if m["family"] == "nested-sequence" and not (P.machinery_problem(r) or not r["run_returned"]):
            fb = [e for e in ev if e["ev"] == "FilterBegin"]
            ub = [e.get("key") for e in ev if e["ev"] == "UpdateBegin"]
            nseq = sum(1 for e in fb if e.get("key") == "b:sequence")
            levels = m["depth"] + 1                         # sequence requests issued when nothing is dropped
            outer = ["u:7101", "u:7102"]
            inner = ["u:%d" % (7000 + 100 + 10 * k + j) for k in range(1, levels) for j in (1, 2)]
            if m["verdict"] == "keep":
                want_n, want = levels, sorted(outer + inner)
            elif m["verdict"] == "drop-inner":
                want_n, want = 2, sorted(outer)
            else:
                want_n, want = 1, []
            got = sorted(k for k in ub if k.startswith("u:7"))
            if nseq != want_n:
                bad.append(("C16:nested-sequence", "%d sequence requests were issued (nesting depth %d, verdict %s); the filter was shown %d" % (want_n, m["depth"], m["verdict"], nseq), {"meta": m, "updates": ub}))
            elif got != want:
                bad.append(("C16:nested-sequence", "verdict %s on nested sequence requests: Update should receive the results %s, it received %s" % (m["verdict"], want, got), {"meta": m, "updates": ub}))
            continue
        if P.machinery_problem(r) or not r["run_returned"]:
            bad.append(("C16:extra-hang", "scenario %s did not complete" % m, {"meta": m, "result": P.summarize(r)}))
            continue
        fb = [e for e in ev if e["ev"] == "FilterBegin"]
        ub = [e.get("key") for e in ev if e["ev"] == "UpdateBegin"]
        if m["family"] == "exec-callback":
            n = sum(1 for e in fb if e.get("key") == "u:9000")
            want_upd = {"drop": None, "replace": "u:77", "keep": "u:9000"}[m["verdict"]]
            if n != 1:
                bad.append(("C16:exec-callback", "the message of an Exec callback was shown to the filter %d times" % n, {"meta": m, "updates": ub}))
            elif (want_upd is None and ("u:9000" in ub or "u:77" in ub)) or (want_upd is not None and (ub.count(want_upd) != 1 or (want_upd != "u:9000" and "u:9000" in ub))):
                bad.append(("C16:exec-callback", "the filter's verdict (%s) on the message of an Exec callback was not obeyed: Update saw %s" % (m["verdict"], ub), {"meta": m, "updates": ub}))
        else:
            nsig = sum(1 for e in fb if e.get("key") in ("b:interrupt", "b:quit"))
            if r["run_err"] != "killed" or not all("u:%d" % (40 + k) in ub for k in range(3)):
                bad.append(("C16:signal-veto", "a filter suppressed every quit/interrupt request, yet SIG%s ended the program (Run: %s, filter consulted for %d signal messages)" % (m["sig"].upper(), r["run_err"], nsig),
                            {"meta": m, "updates": ub, "run_err": r["run_err"]}))
            elif nsig != 3:
                bad.append(("C16:signal-veto", "3 signals were delivered, the filter was consulted for %d signal messages" % nsig, {"meta": m}))
    res.oblige("Spec on real runs: the message of an Exec callback and the messages forwarded by the signal handler and nested sequence requests pass the filter once and its verdict is obeyed (%d runs)" % len(scs),
               not bad, [b[:2] for b in bad[:2]])
    res.coverage["extra_families"] = {"exec_callback": 6, "signal_veto": 2, "nested_sequence": 6}
    return bad


def P_coq_opts(o):
    b = lambda x: "true" if x else "false"   # noqa: E731
    return "(Build_opts %s %s %s false false)" % (b(o.get("alt")), b(o.get("mouse") == "cell"), b(o.get("mouse") == "all"))


def apply_policy(flt, m):
    k = code(m)[2]
    if k in flt["drop"]:
        return None
    if k in flt["replace"]:
        return flt["replace"][k]
    return m


def twin_case(c):
    """the same program without a filter, sent the messages the filter returns"""
    out = []
    for m in c["msgs"]:
        v = apply_policy(c["filter"], m)
        if v is not None:
            out.append(v)
            if v.get("b") in ("quit", "interrupt"):
                break
    return {"msgs": out, "filter": None, "opts": c["opts"]}


def effects(c, r):
    upd = [e["key"] for e in r["events"] if e["ev"] == "UpdateBegin"]
    return {"updates": upd[:len(upd)], "modes": P.final_modes(P.mode_tokens(r["output"])), "err": r["run_err"],
            "mode_tokens": P.mode_tokens(r["output"]), "prints": bytes(r["output"]).count(b"p")}


def replay(res, path):
    d = json.load(open(path))
    c = d.get("case") or (d.get("mismatching_cases") or [None])[0]
    if not c:
        raise C.Fail("replay file has no case")
    C.build_harness()
    results, _ = P.run_scenarios("C16_replay", scenarios([c]))
    for e in results[0]["events"]:
        if e["ev"] in ("FilterBegin", "FilterEnd", "UpdateBegin"):
            print(e["ev"], e.get("key"), e.get("ver"), e.get("verdict", ""))
    res.oblige("replayed", True)
    return res.finish(rule="replay (prints the filter / update log)", trusted_extra=TRUSTED)
