"""C17 — Exec hands the terminal over cleanly and takes it back completely."""
import json
import random

from .. import common as C
from .. import lifecycle as L
from .. import program as P

PROPS = ["C17", "C17_modes"]
OBL = ["exec-quiet", "no-dead-end"]
TRUSTED = [
    "control half: skeleton Model/Skel.v (during RExecRun the ticker has been stopped by the handshake, the read loop is not reading, signals are ignored, the terminal is restored) with guards computed from the GENERATED ReleaseTerminal/RestoreTerminal call lists",
    "mode half: Model/Lifecycle.v release / restore_term interpret the GENERATED call lists over the renderer model; Proof/ModesProofs.v release_then_restore (both cursor conventions, any remembered triple)",
    "a fake ExecCommand stands for the external program: it snapshots the output length, reads its stdin itself and samples nothing else; cancelreader's cancellation latency (<= 500 ms wait) is exercised, not proved (C17_partial in DESIGN)",
    "mouse modes are deliberately not re-enabled by RestoreTerminal and not claimed by the property",
]
MODE_CMDS = ["enteralt", "exitalt", "pasteon", "pasteoff", "focuson", "focusoff", "mousecell", "mouseoff", "showcursor", "hidecursor"]
PRE = ("From Coq Require Import List Bool NArith Arith String.\nImport ListNotations.\n"
       "From BT Require Import Base.Bytes Model.GenTypes Model.VT Model.Renderer Model.EvLoop Spec.Modes Model.Lifecycle.\n"
       "From BTGen Require Dispatch Lifecycle.\n")


def gen(tier, rnd):
    cases = []
    n = 40 if tier == "quick" else 800
    for c in range(n):
        o = {}
        if rnd.random() < 0.4:
            o["alt"] = True
        if rnd.random() < 0.3:
            o["mouse"] = rnd.choice(["cell", "all"])
        if rnd.random() < 0.3:
            o["nopaste"] = True
        if rnd.random() < 0.4:
            o["focus"] = True
        steps = []
        for k in range(rnd.choice([1, 1, 2, 3, 5])):
            for _ in range(rnd.choice([0, 0, 1, 2, 3])):
                steps.append({"mode": rnd.choice(MODE_CMDS)})
            steps.append({"exec": {"cb": rnd.random() < 0.6, "ok": rnd.random() < 0.6, "during": rnd.random() < 0.5}})
        inp = rnd.choice(["pipe", "pipe", "reader", "none"])
        for s in steps:
            if "exec" in s and inp != "pipe":
                s["exec"]["during"] = False
        cases.append({"opts": o, "steps": steps, "input": inp, "const_view": rnd.random() < 0.4})
    # the same (already painted) view through several consecutive execs from the alt screen: nothing may be painted
    # while a command runs, the second and third time either
    for _ in range(3 if tier == "quick" else 20):
        steps = []
        for k in range(3):
            steps.append({"exec": {"cb": False, "ok": True, "during": False}})
        cases.append({"opts": {"alt": True}, "steps": steps, "input": rnd.choice(["pipe", "none"]), "const_view": True})
    # type-ahead: a burst of keys is read at once, an early one makes Update start the external command; the later
    # keys and what is typed after the command must still arrive
    for _ in range(4 if tier == "quick" else 40):
        o = {"alt": True} if rnd.random() < 0.5 else {}
        cases.append({"opts": o, "steps": [], "input": "pipe", "typeahead": rnd.choice([3, 5, 8]), "const_view": False})
    return cases


def typeahead_scenario(i, c):
    n = c["typeahead"]
    keys = list(range(1, n + 1))         # ctrl+a, ctrl+b, ... : one key event each, all in one write
    upd = {"key:ctrl+a": {"cmd": {"id": 0, "msg": P.B("exec", cb=True)}}}
    script = [P.W("started"), P.W("idle"), P.DO("input", bytes=keys), P.DO("sleep", us=900000), P.W("idle"),
              P.DO("input", bytes=[122]), P.DO("sleep", us=50000), P.W("idle"), P.DO("quit"), P.W("returned")]
    return P.scenario(i, script, opts=dict(c["opts"], fps=120), inp={"kind": "pipe"}, update=upd, watchdog_ms=6000, parallel_ok=True)


def scenarios(cases):
    scs = []
    for i, c in enumerate(cases):
        if c.get("typeahead"):
            scs.append(typeahead_scenario(i, c))
            continue
        script = [P.W("started"), P.W("idle")]
        k = 0
        for s in c["steps"]:
            if "mode" in s:
                script.append(P.DO("send", msg=P.B(s["mode"])))
            else:
                e = s["exec"]
                script += [P.W("idle"),
                           P.DO("go-send", msg=P.B("exec", cb=e["cb"], ok=e["ok"], pause=True, read=3 if e["during"] else 0)),
                           P.W("pause:exec:%d" % k)]
                if e["during"]:
                    script.append(P.DO("input", bytes=[120, 121, 122]))       # "xyz" arrives while the command runs
                script += [P.DO("sleep", us=30000), P.DO("release", label="exec:%d" % k, all=True), P.DO("sleep", us=30000), P.W("idle")]
                if c["input"] in ("pipe", "reader"):
                    script += [P.DO("input", bytes=[97 + k]), P.DO("sleep", us=5000), P.W("idle")]   # typed after the command: read by the program again
                script += [P.DO("send", msg=P.U(500 + k)), P.W("idle")]
                k += 1
        script += [P.DO("quit"), P.W("returned")]
        inp = {"kind": c["input"]}
        if c["input"] == "reader":
            inp["end"] = "hold"
        view = {"text": "same view\n"} if c.get("const_view") else {}
        scs.append(P.scenario(i, script, opts=dict(c["opts"], fps=120), inp=inp, watchdog_ms=6000, parallel_ok=True, view=view))
    return scs


def analyse(c, r):
    probs, samples = [], []
    evs = r["events"]
    out_b = bytes(r["output"])
    if c.get("typeahead"):
        keys = [e.get("key", "") for e in evs if e["ev"] == "UpdateBegin"]
        want = ["key:ctrl+%s" % chr(96 + k) for k in range(1, c["typeahead"] + 1)]
        got = [k for k in keys if k.startswith("key:ctrl+")]
        if got != want:
            probs.append(("typeahead-lost", "keys typed ahead of an Exec: sent %s, Update saw %s" % (want, got)))
        if "key:z" not in keys:
            probs.append(("input-not-resumed", "input typed after an Exec that started while typed-ahead keys were queued was never read"))
        if sum(1 for e in evs if e["ev"] == "ExecRunBegin") != 1:
            probs.append(("exec-count", "the external command did not run exactly once"))
        return probs, samples
    begins = [e for e in evs if e["ev"] == "ExecRunBegin"]
    ends = [e for e in evs if e["ev"] == "ExecRunEnd"]
    execs = [s["exec"] for s in c["steps"] if "exec" in s]
    if len(begins) != len(execs) or len(ends) != len(execs):
        probs.append(("exec-count", "the external command ran %d times, %d requested" % (len(begins), len(execs))))
        return probs, samples
    cbs = [e for e in evs if e["ev"] == "ExecCallback"]
    keys = [e.get("key", "") for e in evs if e["ev"] == "UpdateBegin"]
    for k, (e, b, en) in enumerate(zip(execs, begins, ends)):
        if en["outlen"] != b["outlen"]:
            probs.append(("wrote-during", "%d bytes were written to the output while external command %d ran: %r" % (en["outlen"] - b["outlen"], k, out_b[b["outlen"]:en["outlen"]][:60])))
        # ... and nothing after the terminal was put back in order for the command either: once restoreTerminalState has
        # written its resets (the mouse-SGR reset is always among them) only control sequences may follow
        k0 = out_b.rfind(b"\x1b[?1006l", 0, b["outlen"])
        if k0 >= 0:
            import re as _re
            residue = _re.sub(rb"\x1b\[[0-9;?]*[A-Za-z]", b"", out_b[k0:b["outlen"]])
            if residue.strip(b"\r\n") != b"":
                probs.append(("painted-after-handover", "after the terminal had been restored for external command %d, and before it started, %r was painted on it" % (k, residue[:40])))
        if e["during"] and en.get("read") != [120, 121, 122]:
            probs.append(("input-stolen", "input that arrived while command %d ran was not left for it: the command read %s" % (k, en.get("read"))))
        if any(kk.startswith("key:") and any(ch in kk[4:] for ch in "xyz") for kk in keys):
            probs.append(("input-stolen", "input that arrived while a command ran reached Update as a key message"))
        n = sum(1 for x in cbs if x["id"] == k)
        if n != (1 if e["cb"] else 0):
            probs.append(("callback", "callback of command %d invoked %d times (callback given: %s)" % (k, n, e["cb"])))
        if e["cb"]:
            err = [x["err"] for x in cbs if x["id"] == k]
            if err and err[0] != ("nil" if e["ok"] else "err"):
                probs.append(("callback-error", "callback of command %d received %s, the command %s" % (k, err[0], "succeeded" if e["ok"] else "failed")))
        nu = keys.count("u:%d" % (9000 + k))
        if nu != (1 if e["cb"] else 0):
            probs.append(("callback-message", "the callback's message of command %d reached Update %d times" % (k, nu)))
        # (a plain io.Reader cannot be cancelled by the cancelreader library: its old read loop swallows one read after
        #  the command; the property speaks of file-descriptor input, so only the pipe is judged)
        if c["input"] == "pipe" and ("key:%s" % chr(97 + k)) not in keys:
            probs.append(("input-not-resumed", "input typed after command %d was not read by the program" % k))
        # the view is painted again in full after the command (by the next hand-over or the end at the latest:
        # painting happens on the renderer's ticker, so no tighter deadline is imposed)
        nxt = next((x for x in evs if x["ev"] == "UpdateBegin" and x.get("key") == "u:%d" % (500 + k)), None)
        limit = begins[k + 1]["outlen"] if k + 1 < len(begins) else len(out_b)
        if (b"same view" if c.get("const_view") else b"view ") not in out_b[en["outlen"]:limit]:
            probs.append(("no-repaint", "the view was not painted again after command %d although the screen had been handed over" % k))
        samples.append({"before": P.mode_tokens(out_b[:b["outlen"]]), "begin": b["outlen"], "end": en["outlen"],
                        "after": P.mode_tokens(out_b[:nxt["outlen"]]) if nxt is not None else None})
    return probs, samples


def instant_family(res, tier, rnd):
    """external commands that return at once (the renderer is stopped and started again within microseconds), 1-3 in a
    row, inline and alt screen, with and without callback: afterwards the program paints again - the view of the next
    update is on the screen before the update after it begins"""
    scs, metas = [], []
    for i in range(16 if tier == "quick" else 200):
        alt, cb, n = bool(i & 1), bool(i & 2), 1 + (i // 4) % 3
        script = [P.W("started"), P.W("idle")]
        for k in range(n):
            script += [P.DO("send", msg=P.B("exec", fast=True, cb=cb)), P.DO("sleep", us=rnd.choice([0, 0, 2000]))]
        script += [P.DO("sleep", us=80000), P.W("idle"), P.DO("send", msg=P.U(600)), P.DO("sleep", us=80000), P.W("idle"),
                   P.DO("send", msg=P.U(601)), P.W("idle"), P.DO("kill"), P.W("returned")]
        # (a view of four lines of which one carries the version: the other three do not change across the command, yet
        #  they must be painted again - the external program had the screen)
        scs.append(P.scenario(i, script, opts={"fps": 120, "alt": alt}, inp={"kind": "pipe"}, parallel_ok=True, watchdog_ms=5000, view={"pad": 3, "at": 1}))
        metas.append({"alt": alt, "callback": cb, "execs": n})
    results, _ = P.run_scenarios("C17_instant", scs, timeout=900)
    bad = []
    for m, r in zip(metas, results):
        if P.machinery_problem(r) or not r["run_returned"]:
            bad.append((m, "scenario did not complete: %s" % P.summarize(r)))
            continue
        ev = r["events"]
        u601 = next((e for e in ev if e["ev"] == "UpdateBegin" and e.get("key") == "u:601"), None)
        if u601 is None:
            bad.append((m, "marker missing"))
            continue
        # (a) without any further message: what is on the screen when the next message (u:600) begins is the current view
        u600 = next((e for e in ev if e["ev"] == "UpdateBegin" and e.get("key") == "u:600"), None)
        ends = [e for e in ev if e["ev"] == "ExecRunEnd"]
        if u600 is not None and ends:
            seg = bytes(r["output"])[ends[-1]["outlen"]:u600["outlen"]]
            missing = [t for t in (b"row 00 ", b"row 02 ", b"row 03 ") if t not in seg]
            if (b"view %d" % u600["ver"]) in seg and missing:
                bad.append((m, "after %d external command(s) (%s, %s) the view was not fully repainted: its unchanged lines %s were not painted again" %
                            (m["execs"], "alt screen" if m["alt"] else "inline", "callback" if m["callback"] else "no callback", [x.decode() for x in missing])))
                continue
            if (b"view %d" % u600["ver"]) not in seg:
                import re as _re
                bad.append((m, "after %d external command(s) (%s, %s) and no further message the current view (view %d) was not painted again; painted since the last command: %s" %
                            (m["execs"], "alt screen" if m["alt"] else "inline", "callback" if m["callback"] else "no callback", u600["ver"], _re.findall(rb'view \d+', seg))))
                continue
        shown = bytes(r["output"])[:u601["outlen"]]
        want = b"view %d" % u601["ver"]
        if want not in shown:
            import re as _re
            bad.append((m, "after %d external command(s) that returned at once (%s, %s) the view of the next update (%s) was still not painted 80 ms and one idle period later; last painted: %s" %
                        (m["execs"], "alt screen" if m["alt"] else "inline", "callback" if m["callback"] else "no callback", want.decode(), _re.findall(rb'view \d+', shown)[-1:])))
    res.oblige("Spec on real runs: after external commands that return at once the program paints again (%d runs)" % len(scs), not bad, [b[1] for b in bad[:2]])
    for m, what in bad[:1]:
        res.violation("C17:no-repaint:instant", what, {"scenario_meta": m})
    res.coverage["instant_exec_family"] = len(scs)


def run(res, tier, seed):
    rnd = random.Random(seed * 7919 + 17)
    instant_family(res, tier, random.Random(seed * 7919 + 171))
    proofs_ok, broken, cex = L.skeleton_obligations(res, PROPS, OBL)
    okb, out = C.build_harness()
    if not okb:
        raise C.Fail("harness build failed (does /repo still compile with -tags verif?):\n" + out[-3000:])
    cases = gen(tier, rnd)
    results, dt = P.run_scenarios("C17", scenarios(cases), timeout=3000)
    if tier == "thorough":
        # the other direction of the correspondence (code within model), see lib/lifecycle.trace_inclusion
        from .. import lifecycle as _L
        _scs = scenarios(cases)
        _stuck = _L.trace_inclusion(res, "C17", [(a, {"cause": "?", "point": "?"}, b) for a, b in zip(_scs, results)], 16)
        if _stuck:
            res.violation("C17:obligation:trace", "the callback sequence of a real run is not a path of the control skeleton (observation %d)" % _stuck[0][3],
                          {"scenario": _stuck[0][0], "observations": _L.observations(_stuck[0][0], _stuck[0][2])[1]}, found_input=False)
    crashed = [(i, c, r) for i, (c, r) in enumerate(zip(cases, results)) if r.get("crashed")]
    mach = [(c, r) for c, r in zip(cases, results) if (P.machinery_problem(r) or not r["run_returned"]) and not r.get("crashed")]
    res.oblige("harness: every scenario ran as scripted (%d)" % len(cases), not mach, [P.summarize(r) for c, r in mach[:1]])
    py_bad, rows = [], []
    for i, (c, r) in enumerate(zip(cases, results)):
        res.count(json.dumps([c["opts"], c["steps"], c["input"]], sort_keys=True))
        if r.get("crashed") or not r["run_returned"]:
            continue
        pr, samples = analyse(c, r)
        if pr:
            py_bad.append((i, pr))
        # Coq: at the hand-over the terminal is in its default modes; afterwards alt / paste / focus are what they were
        # just before the exec message (apply over options + mode commands), cursor hidden, mouse off
        hist = []
        k = 0
        for s in c["steps"]:
            if "mode" in s:
                hist.append(s["mode"])
            else:
                if k < len(samples) and samples[k]["after"] is not None:
                    rows.append("(%d%%nat, %s, [%s], %s, %s)" % (i, c12_opts(c["opts"]), "; ".join(CMDC[h] for h in hist),
                                                             P.coq_mode_toks(samples[k]["before"]), P.coq_mode_toks(samples[k]["after"])))
                hist.append("@exec")
                k += 1
    # the abstract machine extended with exec: afterwards alt/paste/focus as before, cursor hidden, mouse off
    rows_def = "Definition rows : list (nat * opts * list hstep * list tok * list tok) := [%s]."
    body = ["Definition hstep_ := hstep.", "Definition hist_apply_ := hist_apply.",
            "Definition at_handover_ok (x : nat * opts * list hstep * list tok * list tok) : bool := let '(_, o, h, before, after) := x in "
            "forallb (fun sh => modes_eqb (vt_modes (vt_run sh (vt_init 80 24 [] 0) before)) defaults) [true; false].",
            "Definition after_ok (x : nat * opts * list hstep * list tok * list tok) : bool := let '(_, o, h, before, after) := x in "
            "forallb (fun sh => modes_eqb (vt_modes (vt_run sh (vt_init 80 24 [] 0) after)) (hist_apply (fold_left hist_apply h (apply_opts o)) HExec)) [true; false].",
            "Definition bad_handover := map (fun x => fst (fst (fst (fst x)))) (filter (fun x => negb (at_handover_ok x)) rows).",
            "Definition bad_after := map (fun x => fst (fst (fst (fst x)))) (filter (fun x => negb (after_ok x)) rows)."]
    head = body[:2]
    bad_h, _ = C.coq_eval_sharded("cases_C17h", PRE + "\n".join(head) + "\n", rows, rows_def, body[2:], "bad_handover", shard=150)
    bad_a, _ = C.coq_eval_sharded("cases_C17a", PRE + "\n".join(head) + "\n", rows, rows_def, body[2:], "bad_after", shard=150)
    res.oblige("Spec on real output (Coq: Spec.Modes over the real mode tokens): default modes when the command starts, %d execs" % len(rows), not bad_h, [cases[i] for i in bad_h[:1]])
    res.oblige("Spec on real output (Coq): after the command alt screen / paste / focus are what they were before it (for every history incl. earlier execs), cursor hidden", not bad_a, [cases[i] for i in bad_a[:1]])
    res.oblige("Spec on real runs: nothing written while the command runs; input arriving meanwhile is left for it; callback once with the command's error; input read again; view repainted", not py_bad, py_bad[:2])
    res.oblige("real runs: no crash of the process around Exec", not crashed, [(c["input"], (r.get("crash_text") or "")[:200]) for i, c, r in crashed[:1]])
    found = False
    for i, c, r in crashed[:1]:
        res.violation("C17:crash:%s" % c["input"], "the process crashed around Exec (input kind %s): %s" % (c["input"], (r.get("crash_text") or "")[:300]), {"case": c})
        found = True
    for i, pr in py_bad[:1]:
        res.violation("C17:%s" % pr[0][0], pr[0][1], {"case": cases[i], "problems": pr[:5]})
        found = True
    for i in bad_h[:1]:
        res.violation("C17:modes-at-handover", "the terminal was not in its default modes when the external command started", {"case": cases[i]})
        found = True
    for i in bad_a[:1]:
        res.violation("C17:modes-after", "after the external command the alt screen / bracketed paste / focus reporting are not what they were before it", {"case": cases[i]})
        found = True
    if not found and not proofs_ok:
        res.violation("C17:obligation", "proof obligation no longer checks (%s); model search: %s; the Spec held on all %d real runs" %
                      (broken, "; ".join(k for k, v in cex.items() if v) or "no violating skeleton state", len(cases)),
                      {"broken": broken, "model_counterexamples": cex, "searched": "%d runs, %d execs" % (len(cases), len(rows))}, found_input=False)
    res.coverage["input_distribution"] = {
        "programs": len(cases), "execs": sum(1 for c in cases for s in c["steps"] if "exec" in s),
        "consecutive_execs": {str(k): sum(1 for c in cases if sum(1 for s in c["steps"] if "exec" in s) == k) for k in range(1, 6)},
        "with_callback": sum(1 for c in cases for s in c["steps"] if "exec" in s and s["exec"]["cb"]),
        "failing_commands": sum(1 for c in cases for s in c["steps"] if "exec" in s and not s["exec"]["ok"]),
        "input_during": sum(1 for c in cases for s in c["steps"] if "exec" in s and s["exec"]["during"]),
        "input_kinds": {k: sum(1 for c in cases if c["input"] == k) for k in ("pipe", "reader", "none")},
        "constant_view": sum(1 for c in cases if c.get("const_view")), "typeahead": sum(1 for c in cases if c.get("typeahead")),
        "options": {k: sum(1 for c in cases if c["opts"].get(k)) for k in ("alt", "mouse", "nopaste", "focus")},
    }
    res.coverage["traces_validated_against_impl"] = len(cases)
    res.samples = [{"opts": c["opts"], "steps": c["steps"][:6], "input": c["input"]} for c in cases[:4]]
    return res.finish(rule="random options x mode histories x 1..5 consecutive execs (success / failure, with / without callback) x input kind (pipe, reader, none) with bytes arriving during and after the command; distinct = (options, steps, input)",
                      trusted_extra=TRUSTED)


CMDC = {"enteralt": "HC MEnterAlt", "exitalt": "HC MExitAlt", "mousecell": "HC MMouseCell", "mouseall": "HC MMouseAll", "mouseoff": "HC MMouseOff",
        "pasteon": "HC MPasteOn", "pasteoff": "HC MPasteOff", "focuson": "HC MFocusOn", "focusoff": "HC MFocusOff", "showcursor": "HC MShowCursor",
        "hidecursor": "HC MHideCursor", "clear": "HC MClear", "@exec": "HExec"}


def c12_opts(o):
    b = lambda x: "true" if x else "false"   # noqa: E731
    return "(Build_opts %s %s %s %s %s)" % (b(o.get("alt")), b(o.get("mouse") == "cell"), b(o.get("mouse") == "all"), b(o.get("nopaste")), b(o.get("focus")))


def replay(res, path):
    d = json.load(open(path))
    c = d.get("case")
    if not c:
        raise C.Fail("replay file has no case")
    C.build_harness()
    results, _ = P.run_scenarios("C17_replay", scenarios([c]))
    if results[0].get("crashed"):
        print("CRASHED:", results[0].get("crash_text", "")[:1500])
    else:
        print("problems:", analyse(c, results[0])[0])
    res.oblige("replayed", True)
    return res.finish(rule="replay", trusted_extra=TRUSTED)
