"""C18 — OS signals and window size are reported faithfully."""
import json
import random
import re

from .. import common as C
from .. import lifecycle as L
from .. import program as P

PROPS = ["C18"]
OBL = ["handler-alive", "signals-count-at-select", "without-signals", "ignored-signals", "error-class", "restored-at-return", "no-dead-end"]
TRUSTED = [
    "model half: skeleton Model/Skel.v (signal handler goroutine: SIGINT -> interrupt, SIGTERM -> quit, ignore flag, handler absent without the option's consent) with guards computed from gen/Signals.v facts and gen/Lifecycle.v call lists; renderer size adoption Model/Renderer.r_window_size",
    "OS half (exercised, not proved): signal delivery, signal.Notify, TIOCGWINSZ / TIOCSWINSZ, SIGWINCH, termios: every scenario runs one Program in its own child process on a pseudo-terminal pair (/dev/ptmx) and signals are sent only after the handler goroutine had time to register (the script waits for the program to be idle first)",
    "tie: the bodies of handleResize, listenForResize and checkResize equal the shapes below (an edit is an unclassified change)",
]
SHAPES = ["handleResize", "listenForResize", "checkResize"]     # frozen in coq/theories/RefShapes.v


def tie(res):
    pre = ("From Coq Require Import List Bool String.\nImport ListNotations.\nOpen Scope string_scope.\nFrom BT Require Model.SkelTie.\nFrom BTGen Require Signals.\n")
    body = ["Definition t := (%s)." % ", ".join('SkelTie.shapes_ok_for ["%s"]' % k for k in SHAPES)]
    vals, _ = C.coq_eval("cases_C18_tie", pre, body, ["t"], timeout=300)
    flags = [x == "true" for x in re.findall(r'true|false', vals["t"])]
    ok = all(flags) and len(flags) == len(SHAPES)
    res.oblige("tie (K1): handleResize / listenForResize / checkResize have the shapes the statement rests on", ok, dict(zip(SHAPES, flags)))
    return ok


def sig_scenario(i, sig, option, phase, pty):
    o = {"fps": 120}
    if option == "handler":
        o["nosighandler"] = False
    elif option == "nosighandler":
        o["nosighandler"] = True
    elif option == "nosignals":
        o["nosighandler"] = False
        o["nosignals"] = True
    script = [P.W("started"), P.W("idle"), P.DO("sleep", us=20000)]
    upd = {}
    label = None
    if phase == "update":
        upd["u:1"] = {"pause": True}
        script += [P.DO("go-send", msg=P.U(1)), P.W("pause:update:u:1")]
        label = "update:u:1"
    elif phase == "released":
        script += [P.DO("go-send", msg=P.B("exec", pause=True, cb=True)), P.W("pause:exec:0")]
        label = "exec:0"
    elif phase == "after-exec":
        script += [P.DO("send", msg=P.B("exec", cb=True)), P.DO("sleep", us=40000), P.W("idle")]
    if phase == "release-failed":
        # the input terminal hangs up, then an Exec is requested: ReleaseTerminal fails half-way, the command is not run;
        # the program is not "released" afterwards - signals count (for every option as when idle)
        script += [P.DO("pty-hangup"), P.DO("sleep", us=30000), P.DO("send", msg=P.B("exec", cb=True)), P.DO("sleep", us=150000), P.W("idle")]
    if phase == "nested-release":
        # the application releases the terminal itself, an Exec happens meanwhile, the application restores it:
        # afterwards signals count again
        script += [P.DO("release-terminal"), P.DO("sleep", us=10000), P.DO("send", msg=P.B("exec", cb=True)), P.DO("sleep", us=60000),
                   P.DO("restore-terminal"), P.DO("sleep", us=30000), P.W("idle")]
    if phase == "swallowed-then-again":
        o["filter"] = {"drop_first": {"b:interrupt": 1, "b:quit": 1}}
    again = phase in ("released-then-idle", "swallowed-then-again")
    swallowed = phase == "swallowed-then-again"
    if again and not swallowed:
        script += [P.DO("go-send", msg=P.B("exec", pause=True, cb=True)), P.W("pause:exec:0")]
        label = "exec:0"
    script += [P.DO("signal", sig=sig), P.DO("sleep", us=60000)]
    if label:
        script += [P.DO("release", label=label, all=True), P.DO("sleep", us=40000)]
    if again:
        # the first signal was ignored (terminal released); the handler must still be there for the second
        script += [P.W("idle"), P.DO("send", msg=P.U(41)), P.W("idle"), P.DO("signal", sig=sig), P.DO("sleep", us=60000)]
    ends = option == "handler" and phase != "released"
    if not ends:
        # the program must still be alive and working
        script += [P.DO("send", msg=P.U(42)), P.W("idle"), P.DO("kill") if swallowed else P.DO("quit")]
    script.append(P.W("returned"))
    inp = {"kind": "pty", "w": 80, "h": 24} if pty else {"kind": "pipe"}
    if phase == "release-failed":
        inp = {"kind": "ptyin"}
    s = P.scenario(i, script, opts=o, inp=inp, update=upd, isolate=True, watchdog_ms=4000)
    meta = {"kind": "signal", "sig": sig, "option": option, "phase": phase, "pty": pty, "ends": ends,
            "want": ("interrupted" if sig == "int" else "nil") if ends else ("killed" if swallowed else "nil")}
    return s, meta


def size_scenario(i, sizes, mode, rnd, inkind="pty", nosignals=False, nosighandler=False):
    """sizes: the successive true sizes of the terminal; mode: idle (spaced), busy (all while the loop is held in Update),
    released (while an external command runs), command (WindowSize command after the last)"""
    w0, h0 = sizes[0]
    script = [P.W("started"), P.W("idle"), P.DO("sleep", us=20000)]
    upd = {}
    label = None
    if mode == "busy":
        upd["u:1"] = {"pause": True}
        script += [P.DO("go-send", msg=P.U(1)), P.W("pause:update:u:1")]
        label = "update:u:1"
    elif mode == "busy-query":
        # a size query (WindowSize command) is in flight, its answer cannot be delivered because Update is busy;
        # the terminal is resized meanwhile
        upd["b:windowsize"] = {"pause": True}
        script += [P.DO("go-send", msg=P.B("windowsize")), P.W("pause:update:b:windowsize"), P.DO("sleep", us=20000)]
        label = "update:b:windowsize"
    elif mode == "released":
        script += [P.DO("go-send", msg=P.B("exec", pause=True)), P.W("pause:exec:0")]
        label = "exec:0"
    if mode == "revisit":
        # A at start; B with a signal; C without one, learnt through the WindowSize command; back to B with a signal
        (wb, hb), (wc, hc) = sizes[1], sizes[2]
        script += [P.DO("winsize", w=wb, h=hb), P.DO("sleep", us=40000), P.W("idle"),
                   P.DO("winsize", w=wc, h=hc, silent=True), P.DO("send", msg=P.B("windowsize")), P.DO("sleep", us=40000), P.W("idle"),
                   P.DO("winsize", w=wb, h=hb), P.DO("sleep", us=40000), P.W("idle")]
    for (w, h) in ([] if mode == "revisit" else sizes[1:]):
        script += [P.DO("winsize", w=w, h=h), P.DO("sleep", us=30000)]
        if mode in ("idle", "command"):
            script.append(P.W("idle"))
    if label:
        script += [P.DO("release", label=label, all=True)]
    script += [P.DO("sleep", us=60000), P.W("idle")]
    if mode == "command":
        script += [P.DO("send", msg=P.B("windowsize")), P.DO("sleep", us=30000), P.W("idle")]
    script += [P.DO("send", msg=P.U(7)), P.DO("sleep", us=30000), P.W("idle"), P.DO("quit"), P.W("returned")]
    text = "".join(chr(65 + (k % 26)) for k in range(150)) + "\n" + "\n".join("L%02d" % k for k in range(40))
    s = P.scenario(i, script, opts={"fps": 120, "nosighandler": nosighandler, "nosignals": nosignals}, inp={"kind": inkind, "w": w0, "h": h0}, update=upd, isolate=True,
                   watchdog_ms=4000, view={"text": text})
    return s, {"kind": "size", "sizes": sizes, "mode": mode, "inkind": inkind, "nosignals": nosignals, "nosighandler": nosighandler}


def gen(tier, rnd):
    scs, metas = [], []

    def add(x):
        x[0]["id"] = len(scs)
        scs.append(x[0])
        metas.append(x[1])
    phases = ["idle", "update", "released", "after-exec", "released-then-idle", "swallowed-then-again", "nested-release", "release-failed"]
    for sig in ("int", "term"):
        for option in ("handler", "nosighandler", "nosignals"):
            for phase in phases:
                if tier == "quick" and option == "nosighandler" and phase in ("update", "released"):
                    continue
                add(sig_scenario(0, sig, option, phase, pty=(phase in ("idle", "after-exec", "released-then-idle"))))
    reps = 2 if tier == "quick" else 12
    for _ in range(reps):
        for mode in ("idle", "busy", "busy-query", "released", "command"):
            n = rnd.choice([1, 2, 3]) if mode not in ("busy", "busy-query") else rnd.choice([1, 2, 3])
            sizes = [(rnd.randint(20, 120), rnd.randint(5, 40))]
            while len(sizes) < n + 1:
                s = (rnd.randint(20, 120), rnd.randint(5, 40))
                if s != sizes[-1]:
                    sizes.append(s)
            # the terminal is the output; the input is the same terminal, nothing, or a pipe
            # (WithoutSignals is about SIGINT/SIGTERM: window sizes are reported all the same)
            add(size_scenario(0, sizes, mode, rnd, inkind=["pty", "ptyout", "ptyout+pipe", "pty"][len(scs) % 4], nosignals=(len(scs) % 3 == 1),
                              nosighandler=(len(scs) % 3 == 2)))      # (WithoutSignalHandler is about SIGINT/SIGTERM too: resizes are still followed)
        a, b, c = [(rnd.randint(20, 120), rnd.randint(5, 40)) for _ in range(3)]
        if len({a, b, c}) == 3:
            add(size_scenario(0, [a, b, c, b], "revisit", rnd))
    return scs, metas


def painted_widths(out_b):
    """widths of the lines painted in the last full repaint of the output (between CR and the erase/newline)"""
    segs = re.split(rb'\r\n|\n', out_b)
    ws = []
    for sg in segs:
        txt = re.sub(rb'\x1b\[[0-9;?]*[A-Za-z]', b'', sg).replace(b'\r', b'')
        ws.append(len(txt))
    return ws


def judge_one(m, r):
    probs = []
    if r.get("crashed"):
        return [("crash", "the child process died: %s" % (r.get("crash_text") or "")[:300])]
    if not r["run_returned"]:
        return [("hang", "Run did not return")]
    keys = [e.get("key", "") for e in r["events"] if e["ev"] == "UpdateBegin"]
    if m["kind"] == "signal":
        if r["run_err"] != m["want"]:
            probs.append(("signal-error", "SIG%s with %s at phase %s: Run returned %r, expected %r" % (m["sig"].upper(), m["option"], m["phase"], r["run_err"], m["want"])))
        if not m["ends"] and "u:42" not in keys:
            probs.append(("signal-not-ignored", "SIG%s with %s at phase %s ended the program (a later message was not processed)" % (m["sig"].upper(), m["option"], m["phase"])))
        if m["ends"] and "u:42" in keys:
            probs.append(("signal-lost", "the signal did not end the program"))
        if m["phase"] in ("released-then-idle", "swallowed-then-again") and "u:41" not in keys:
            probs.append(("signal-not-ignored", "a signal taken while the terminal was released ended the program"))
        fm = P.final_modes(P.mode_tokens(r["output"]))
        if fm != P.DEFAULT_MODES:
            probs.append(("unrestored", "terminal modes after the signal exit: %s" % fm))
        if m["pty"] and r.get("termios_restored") is False:
            probs.append(("termios", "the terminal's line discipline was not restored"))
    else:
        ws = [tuple(int(x) for x in k[3:].split("x")) for k in keys if k.startswith("ws:")]
        sizes = [tuple(s) for s in m["sizes"]]
        if not ws or ws[0] != sizes[0]:
            probs.append(("size-startup", "the first WindowSizeMsg is %s, the terminal is %s" % (ws[:1], sizes[0])))
        if not ws or ws[-1] != sizes[-1]:
            probs.append(("size-stale", "the last WindowSizeMsg Update received is %s, the terminal's true size is %s (sizes over time: %s, mode %s)" % (ws[-1:] or None, sizes[-1], sizes, m["mode"])))
        if any(s not in sizes for s in ws):
            probs.append(("size-invented", "a WindowSizeMsg carried a size the terminal never had: %s vs %s" % (ws, sizes)))
        # the reports walk through the history of true sizes in order (a size is read some time after its signal: a
        # later size may already be in force by then, an earlier one never comes back) - no timing is assumed
        j = 0
        for x in ws:
            nxt = next((k for k in range(j, len(sizes)) if sizes[k] == x), None)
            if nxt is None:
                if x in sizes:
                    probs.append(("size-order", "sizes over time %s were reported as %s: %s was reported after a later size" % (sizes, ws, x)))
                break
            j = nxt
        if m["mode"] == "command":
            # the command itself reaches Update (key b:windowsize); its answer is a WindowSizeMsg after that
            at = next((i for i, k in enumerate(keys) if k == "b:windowsize"), None)
            after = [k for k in keys[at + 1:] if k.startswith("ws:")] if at is not None else []
            if at is None or not after or after[-1] != "ws:%dx%d" % sizes[-1]:
                probs.append(("size-command", "the WindowSize command produced no WindowSizeMsg with the true size: Update saw %s" % keys[-6:]))
        # the renderer clips to the most recently reported size: the repaint after the last size message
        last = [e for e in r["events"] if e["ev"] == "UpdateBegin" and e.get("key", "").startswith("ws:")]
        u7 = next((e for e in r["events"] if e["ev"] == "UpdateBegin" and e.get("key") == "u:7"), None)
        if last and u7:
            seg = bytes(r["output"])[last[-1]["outlen"]:]
            wds = painted_widths(seg)
            W, H = sizes[-1]
            if wds and max(wds) > W:
                probs.append(("clip", "after the size %dx%d was reported a line %d cells wide was painted" % (W, H, max(wds))))
        if r.get("termios_restored") is False:
            probs.append(("termios", "the terminal's line discipline was not restored"))
    return probs


def run(res, tier, seed):
    rnd = random.Random(seed * 7919 + 18)
    proofs_ok, broken, cex = L.skeleton_obligations(res, PROPS, OBL)
    tie_ok = tie(res)
    okb, out = C.build_harness()
    if not okb:
        raise C.Fail("harness build failed (does /repo still compile with -tags verif?):\n" + out[-3000:])
    scs, metas = gen(tier, rnd)
    results, dt = P.run_scenarios("C18", scs, timeout=3000)
    mach = [(m, r) for m, r in zip(metas, results) if P.machinery_problem(r)]
    res.oblige("harness: every scenario ran as scripted (%d child processes)" % len(scs), not mach, [(m, P.machinery_problem(r)) for m, r in mach[:2]])
    bad = []
    for m, r in zip(metas, results):
        res.count(json.dumps(m, sort_keys=True))
        if P.machinery_problem(r):
            continue
        pr = judge_one(m, r)
        if pr:
            bad.append((m, r, pr))
    nsig = sum(1 for m in metas if m["kind"] == "signal")
    res.oblige("Spec on real runs: SIGINT => ErrInterrupted, SIGTERM => nil, terminal and termios restored; no effect without handler, with WithoutSignals (also after Exec) or while the terminal is released (%d runs)" % nsig,
               not [b for b in bad if b[0]["kind"] == "signal"], [(b[0], b[2]) for b in bad if b[0]["kind"] == "signal"][:2])
    res.oblige("Spec on real runs (pty): WindowSizeMsg with the true size at start-up, after every resize, on the WindowSize command; the last reported size is the true one; the renderer clips to it (%d runs)" % (len(metas) - nsig),
               not [b for b in bad if b[0]["kind"] == "size"], [(b[0], b[2]) for b in bad if b[0]["kind"] == "size"][:2])
    # the error classes through the Coq Spec as well
    pairs = [({"causes": ["sigint" if m["sig"] == "int" else "sigterm"] if m["ends"] else (["kill"] if m["phase"] == "swallowed-then-again" else ["quit"])}, r) for m, r in zip(metas, results)
             if m["kind"] == "signal" and not P.machinery_problem(r)]
    bad_ids = L.eval_outcomes(res, "C18", pairs)
    res.oblige("Spec on real runs (Coq: Spec.LifeSpec.outcome_ok) on the signal outcomes", not bad_ids, sorted(bad_ids)[:5])
    found = False
    for m, r, pr in bad[:1]:
        sig = "C18:%s" % pr[0][0]
        if pr[0][0] == "signal-not-ignored" and m["option"] == "nosignals":
            sig = "C18:without-signals:%s" % m["phase"]
        res.violation(sig, pr[0][1], {"scenario_meta": m, "problems": pr, "result": P.summarize(r), "model_counterexamples": cex})
        found = True
    if not found and not res.violations and (not proofs_ok or not tie_ok):
        res.violation("C18:obligation", "proof obligation or tie no longer checks (%s); model search: %s; the Spec held on all %d real runs" %
                      (broken, "; ".join(k for k, v in cex.items() if v) or "no violating skeleton state", len(metas)),
                      {"broken": broken, "model_counterexamples": cex, "searched": "%d child processes" % len(metas)}, found_input=False)
    res.coverage["input_distribution"] = {
        "signal_runs": nsig, "size_runs": len(metas) - nsig,
        "signal_options": {o: sum(1 for m in metas if m.get("option") == o) for o in ("handler", "nosighandler", "nosignals")},
        "signal_phases": {p: sum(1 for m in metas if m.get("phase") == p) for p in ("idle", "update", "released", "after-exec", "released-then-idle", "swallowed-then-again", "nested-release")},
        "size_modes": {p: sum(1 for m in metas if m.get("mode") == p) for p in ("idle", "busy", "busy-query", "released", "command")},
        "resizes": sum(len(m["sizes"]) - 1 for m in metas if m["kind"] == "size"),
    }
    res.coverage["traces_validated_against_impl"] = len(metas)
    res.samples = metas[:8]
    return res.finish(rule="signal (INT, TERM) x option (handler, WithoutSignalHandler, WithoutSignals) x phase (idle, inside Update, terminal released, after an Exec), one child process each, on a pty where termios matters; sequences of 1..3 resizes of a pty (spaced, in a burst while Update is busy, while released, followed by the WindowSize command); distinct = scenario",
                      trusted_extra=TRUSTED)


def replay(res, path):
    d = json.load(open(path))
    m = d.get("scenario_meta")
    if not m:
        raise C.Fail("replay file has no scenario")
    C.build_harness()
    rnd = random.Random(1)
    x = sig_scenario(0, m["sig"], m["option"], m["phase"], m["pty"]) if m["kind"] == "signal" else size_scenario(0, [tuple(s) for s in m["sizes"]], m["mode"], rnd, inkind=m.get("inkind", "pty"), nosignals=m.get("nosignals", False), nosighandler=m.get("nosighandler", False))
    results, _ = P.run_scenarios("C18_replay", [x[0]])
    print("problems:", judge_one(x[1], results[0]))
    res.oblige("replayed", True)
    return res.finish(rule="replay", trusted_extra=TRUSTED)
