"""C19 — rendering is economical: no change, no output; bounded frame rate."""
import json
import random
from .. import common as C
from .. import renderer as R

PROPS = ["C19", "C19_thms"]


def gen(rnd, tier):
    cases = []
    n = 200 if tier == "quick" else 8000
    for _ in range(n):
        w, h = rnd.choice([(rnd.randint(1, 12), rnd.randint(1, 8))] * 12 + [(80, 24), (120, 50)])
        a = [R.rand_line(rnd, w) for _ in range(rnd.randint(1, h + 1))]
        b = R.mutate_view(rnd, a, w, h)
        alt = rnd.random() < 0.3
        ops = [{"op": "resize", "w": w, "h": h}] + ([{"op": "enteralt"}] if alt else []) + \
              [{"op": "write", "s": R.join_view(a)}, {"op": "flush"}, {"op": "write", "s": R.join_view(b)}, {"op": "flush"},
               {"op": "write", "s": R.join_view(b)}, {"op": "flush"}, {"op": "write", "s": R.join_view(b)}, {"op": "write", "s": R.join_view(b)}, {"op": "flush"}]
        if alt and rnd.random() < 0.35:
            # a line printed just before the alt screen is entered (same frame interval): it is never shown there and
            # must not make later frames more expensive
            k = [i for i, o in enumerate(ops) if o["op"] == "enteralt"][0]
            ops = ops[:k] + [{"op": "print", "s": [76, 48 + rnd.randint(0, 9)]}] + ops[k:]
        elif rnd.random() < 0.4:
            # unmanaged output (Println) arriving while a frame is pending: still nothing before the tick
            k = [i for i, o in enumerate(ops) if o["op"] == "write"][rnd.choice([0, 1])]
            ops = ops[:k + 1] + [{"op": "print", "s": [76, 48 + rnd.randint(0, 9)]}] + ops[k + 1:]
        cases.append({"w0": w, "h0": h, "history": [], "used": 0, "ops": ops, "pair": (a, b), "alt": alt})
    return cases


def framerate_family(res, tier):
    """whole Programs: a model that updates far faster than the frame rate is rendered at most once per frame interval -
    from the start, and again after the renderer has been stopped and restarted (Exec, ReleaseTerminal/RestoreTerminal)"""
    from .. import program as P
    okb, out = C.build_harness()
    if not okb:
        raise C.Fail("harness build failed:\n" + out[-2000:])
    scs, metas = [], []
    for fps in (5, 20):
        for variant in ("plain", "after-exec", "after-release"):
            script = [P.W("started"), P.W("idle")]
            if variant == "after-exec":
                script += [P.DO("send", msg=P.B("exec")), P.DO("sleep", us=120000), P.W("idle")]
            elif variant == "after-release":
                script += [P.DO("release-terminal"), P.DO("sleep", us=60000), P.DO("restore-terminal"), P.DO("sleep", us=60000), P.W("idle")]
            script += [P.DO("send", msg=P.U(7000)), P.DO("start-senders"), P.DO("wait-senders"), P.DO("send", msg=P.U(7001)), P.W("idle"), P.DO("quit"), P.W("returned")]
            # one sender keeps the model changing for about 0.6 s
            s = P.scenario(len(scs), script, opts={"fps": fps}, senders=[[P.U(100 + k) for k in range(300)]], update_default={"sleep_us": 2000},
                           watchdog_ms=8000, writes=True, parallel_ok=False)
            scs.append(s)
            metas.append({"fps": fps, "variant": variant})
    results, _ = P.run_scenarios("C19_rate", scs, timeout=600)
    bad = []
    for m, r in zip(metas, results):
        if P.machinery_problem(r) or not r["run_returned"]:
            bad.append((m, "scenario did not complete"))
            continue
        ev = r["events"]
        t_a = next((e["t"] for e in ev if e["ev"] == "UpdateBegin" and e.get("key") == "u:7000"), None)
        t_b = next((e["t"] for e in ev if e["ev"] == "UpdateBegin" and e.get("key") == "u:7001"), None)
        if t_a is None or t_b is None or t_b <= t_a:
            bad.append((m, "markers missing"))
            continue
        n = sum(1 for t, ln in r.get("writes", []) if t_a <= t <= t_b and ln > 8)     # frames (mode sequences are shorter)
        allowed = (t_b - t_a) / 1e6 * m["fps"] + 3
        m["frames"], m["window_s"], m["allowed"] = n, round((t_b - t_a) / 1e6, 2), round(allowed, 1)
        if n > allowed:
            bad.append((m, "%d frames were written in %.2f s at fps %d (%s): at most %.1f allowed" % (n, (t_b - t_a) / 1e6, m["fps"], m["variant"], allowed)))
    res.oblige("Spec on real Programs: at most one render per frame interval while the model updates ~500 times/s, before and after a renderer restart (%d programs)" % len(scs),
               not bad, bad[:2])
    for m, what in bad[:1]:
        res.violation("C19:frame-rate:%s" % m["variant"], what, {"scenario_meta": m})
    res.coverage["framerate_family"] = metas


def burst_family(res, tier):
    """pause, then a burst of updates, many times over: every burst may cost one render at once but never two inside one
    frame interval (a renderer that paints out of turn after a pause and again at the next tick doubles the rate)"""
    from .. import program as P
    scs, metas = [], []
    for fps in (4, 5):
        cycles = 16
        script = [P.W("started"), P.W("idle"), P.DO("sleep", us=400000)]
        for k in range(cycles):
            # three updates 30 ms apart (well inside one frame interval of >= 200 ms), then a pause of just over two frame intervals (so that a whole interval has passed since the last paint): the
            # bursts drift through every phase of the ticker
            script += [P.DO("send", msg=P.U(100 + 10 * k)), P.DO("sleep", us=30000), P.DO("send", msg=P.U(101 + 10 * k)), P.DO("sleep", us=30000),
                       P.DO("send", msg=P.U(102 + 10 * k)), P.DO("sleep", us=int(2.15e6 / fps))]
        script += [P.DO("send", msg=P.U(999)), P.W("idle"), P.DO("quit"), P.W("returned")]
        scs.append(P.scenario(len(scs), script, opts={"fps": fps}, writes=True, parallel_ok=True, watchdog_ms=16000))
        metas.append({"fps": fps, "cycles": cycles})
    results, _ = P.run_scenarios("C19_burst", scs, timeout=600)
    bad = []
    for m, r in zip(metas, results):
        if P.machinery_problem(r) or not r["run_returned"]:
            bad.append((m, "scenario did not complete"))
            continue
        ev = r["events"]
        t_a = next((e["t"] for e in ev if e["ev"] == "UpdateBegin" and e.get("key") == "u:100"), None)
        t_b = next((e["t"] for e in ev if e["ev"] == "UpdateBegin" and e.get("key") == "u:999"), None)
        if t_a is None or t_b is None:
            bad.append((m, "markers missing"))
            continue
        frames = sorted(t for t, ln in r.get("writes", []) if t_a <= t <= t_b and ln > 6)
        interval = 1e6 / m["fps"]
        close = [(a, b) for a, b in zip(frames, frames[1:]) if b - a < 0.6 * interval]
        m["frames"], m["pairs_closer_than_0.6_interval"] = len(frames), len(close)
        if len(close) > 2:      # (a late tick next to a punctual one can happen once or twice on a loaded machine; a renderer painting out of turn gives about eight in sixteen cycles)
            bad.append((m, "%d pairs of frames were painted less than 0.6 frame intervals apart (fps %d, %d bursts after pauses): %s" %
                        (len(close), m["fps"], m["cycles"], [(round((b - a) / 1000)) for a, b in close[:6]])))
    res.oblige("Spec on real Programs: bursts of updates after pauses never get two renders inside one frame interval (%d programs, 8 bursts each)" % len(scs),
               not bad, [b[1] for b in bad[:2]])
    for m, what in bad[:1]:
        res.violation("C19:frame-rate:burst-after-pause", what, {"scenario_meta": m})
    res.coverage["burst_family"] = metas


def economy_family(res, tier):
    """whole Programs, every output option (plain, WithANSICompressor, alt screen): a view of 9 lines of which one changes per
    update costs about that line, an unchanged view costs nothing"""
    from .. import program as P
    scs, metas = [], []
    for compressor, focus in ((False, False), (True, False), (False, True)):
        for alt in (False, True):
            for at in (0, 4, 8):
                script = [P.W("started"), P.W("idle"), P.DO("sleep", us=40000)]
                for k in range(4):
                    if focus:
                        # the terminal reports focus-out / focus-in between the updates (messages like any other for the renderer)
                        script += [P.DO("send", msg=P.B("blur")), P.DO("send", msg=P.B("focus"))]
                    script += [P.DO("send", msg=P.U(10 + k)), P.DO("sleep", us=40000), P.W("idle")]
                script += [P.DO("quit"), P.W("returned")]
                scs.append(P.scenario(len(scs), script, opts={"fps": 120, "compressor": compressor, "alt": alt, "focus": focus}, view={"pad": 8, "at": at}, writes=True,
                                      parallel_ok=True, watchdog_ms=4000))
                metas.append({"compressor": compressor, "alt": alt, "changed_line": at, "focus_events": focus})
    results, _ = P.run_scenarios("C19_econ", scs, timeout=600)
    bad = []
    for m, r in zip(metas, results):
        if P.machinery_problem(r) or not r["run_returned"]:
            bad.append((m, "scenario did not complete"))
            continue
        ev = r["events"]
        ws = r.get("writes", [])
        for k in range(1, 3):          # the frames of the 2nd and 3rd update, each delimited by the next update (the last window would contain the exit sequences)
            t0 = next((e["t"] for e in ev if e["ev"] == "UpdateBegin" and e.get("key") == "u:%d" % (10 + k)), None)
            t1 = next((e["t"] for e in ev if e["ev"] == "UpdateBegin" and e.get("key") == "u:%d" % (11 + k)), None)
            if t0 is None:
                bad.append((m, "marker missing"))
                break
            if t1 is None:
                bad.append((m, "marker missing"))
                break
            n = sum(ln for t, ln in ws if t0 <= t < t1)
            # the changed line ("view NN") plus cursor movement: a row of the constant lines alone is 33 bytes
            bound = 10 + 9 * 4 + 24
            m.setdefault("bytes", []).append(n)
            if n > bound:
                bad.append((m, "one line of a 9-line view changed; %d bytes were written (the changed line is 7 bytes, the bound with cursor movement is %d; options: %s)" %
                            (n, bound, {k: v for k, v in m.items() if k != "bytes"})))
                break
    res.oblige("Spec on real Programs: a one-line change of a 9-line view costs about one line, whatever the output options (compressor, alt screen; %d programs)" % len(scs),
               not bad, [b[1] for b in bad[:2]])
    for m, what in bad[:1]:
        res.violation("C19:program-cost:%s" % ("compressor" if m["compressor"] else "plain"), what, {"scenario_meta": m})
    res.coverage["economy_family"] = metas


def run(res, tier, seed):
    framerate_family(res, tier)
    burst_family(res, tier)
    economy_family(res, tier)
    rnd = random.Random(seed * 9001 + 19)
    cases = gen(rnd, tier)
    # frame-rate clamp: real newRenderer vs model, fps in -5..300 and extreme values
    fpss = list(range(-5, 301)) + [-2 ** 31, 2 ** 31 - 1, -2 ** 62, 2 ** 62, 1000, 121, 120, 119, 61, 60, 59, 1, 0]
    C.build_harness()
    rc, out, dt = C.run_harness(["fps"] + [str(f) for f in fpss])
    if rc != 0:
        raise C.Fail("fps harness failed: " + out[-1000:])
    recs = [json.loads(l) for l in out.splitlines() if l.strip().startswith("{")]
    pre = "From Coq Require Import ZArith List Bool.\nImport ListNotations.\nFrom BT Require Import Model.Renderer Spec.Economy.\nOpen Scope Z_scope.\n"
    body = ["Definition obs : list (Z * Z) := [%s]." % "; ".join("((%d), (%d))" % (r["fps"], r["ns"]) for r in recs),
            "Definition bad_model := filter (fun p => negb (r_framerate_ns (fst p) =? snd p)) obs.",
            "Definition bad_spec := filter (fun p => negb (frame_interval_ns 60 120 (fst p) =? snd p)) obs."]
    vals, _ = C.coq_eval("cases_C19_fps", pre, body, ["bad_model", "bad_spec"])
    bad_model_fps = C.parse_coq_value(vals["bad_model"]) not in ("[]", "nil")
    bad_spec_fps = C.parse_coq_value(vals["bad_spec"]) not in ("[]", "nil")

    def oracle(case, out):
        """silence: the third and fourth flush (same view as displayed) write nothing"""
        if "pair" not in case:
            return None
        outs = out["outs"]
        flushes = [i for i, o in enumerate(case["ops"]) if o["op"] == "flush"]
        has_print = any(o["op"] == "print" for o in case["ops"])
        for k in ([] if has_print else flushes[2:]):
            if len(outs[k]) != 0:
                return ("C19:not-silent", "rendering a view identical to the one on screen wrote %d bytes" % len(outs[k]))
        writes = [i for i, o in enumerate(case["ops"]) if o["op"] in ("write", "resize", "print")]
        for k in writes:
            if len(outs[k]) != 0:
                return ("C19:write-emits", "write()/resize produced output outside a frame tick (%d bytes)" % len(outs[k]))
        if has_print and not case.get("alt"):
            return None      # (inline, printed lines are extra output: the cost bound below is about a plain re-render)
        # cost of the second flush against the Spec bound (computed here from the same closed formula as Spec/Economy.v)
        a, b = case["pair"]
        w, h = case["w0"], case["h0"]
        clip = lambda ls: ls[-h:] if len(ls) > h else ls   # noqa: E731
        def lines_of(x):
            s = R.join_view(x) or [32]          # write("") renders one space
            out, cur = [], []
            for ch in s:
                if ch == 10:
                    out.append(cur); cur = []   # noqa: E702
                else:
                    cur.append(ch)
            return out + [cur]
        va = clip(lines_of(a))
        vb = clip(lines_of(b))
        if (R.join_view(a) or [32]) == (R.join_view(b) or [32]):
            return None
        digits = lambda n: len(str(n))   # noqa: E731
        cost = 0
        for i, l in enumerate(vb):
            same = i < len(va) and va[i] == l
            cost += 1 if same else min(len(l), w) + 5
        cost += (3 + digits(len(va))) + 8 + (4 + max(digits(w), digits(len(vb)))) + 1
        real = len(outs[flushes[1]])
        if real > cost:
            return ("C19:cost", "re-render wrote %d bytes, the bound for the changed lines is %d" % (real, cost))
        return None
    # strip helper keys before handing the cases to the generic family
    clean = [{k: v for k, v in c.items() if k not in ("pair", "alt")} for c in cases]
    idx = {json.dumps(c["ops"], sort_keys=True): c for c in cases}

    def oracle2(case, out):
        return oracle(idx.get(json.dumps(case["ops"], sort_keys=True), case), out)
    res.oblige("K2:frame interval model = newRenderer on %d fps values" % len(recs), not bad_model_fps, vals["bad_model"][:300])
    res.oblige("Spec on real output: frame interval = 1s / clamp(fps,1..120, default 60) on %d fps values" % len(recs), not bad_spec_fps, vals["bad_spec"][:300])
    if bad_spec_fps:
        res.violation("C19:fps", "the frame interval computed by newRenderer is not 1s/clamp(fps)", {"observations": vals["bad_spec"][:1000]})
    elif bad_model_fps:
        res.violation("C19:obligation", "correspondence broken: frame interval model differs from newRenderer (Spec still holds)",
                      {"observations": vals["bad_model"][:1000]}, found_input=False)
    res.coverage["fps_values"] = len(recs)
    return R.run_family(res, "C19", PROPS, clean, extra_real_oracle=oracle2,
                        rule="pairs of consecutive views (mutated: changed lines, shrink, grow, empty) at random sizes incl. 80x24 and 120x50, inline and alt: the same view re-rendered must write 0 bytes; the re-render cost must stay within Spec.cost_bound; write()/resize never emit; frame interval for fps in -5..300 and extreme values; distinct = distinct ops")


def replay(res, path):
    return R.replay_family(res, "C19", PROPS, path)
