"""C20 — Tick and Every never fire early and report the time they fired."""
import os
from .. import common as C

TOL_NS = 100000  # clock-reading tolerance for the real-run observations


def run(res, tier, seed):
    proofs_ok, broken = C.proof_obligations(res, "C20")
    okb, out = C.build_harness()
    if not okb:
        raise C.Fail("harness build failed:\n" + out[-3000:])
    path = os.path.join(C.CASES, "C20.jsonl")
    rc, out, dt = C.run_harness(["timer", "-seed", str(seed), "-tier", tier, "-out", path])
    if rc != 0:
        raise C.Fail("timer harness failed:\n" + out[-2000:])
    recs = C.read_jsonl(path)
    rows = []
    for r in recs:
        rows.append("(%s, %d, %s, %s, %d, %d)" % ("true" if r["kind"] == "every" else "false",
                                                  r["d"], r["lo"], r["hi"], r["el_ts"], r["el_ctl"]))
    pre = """From Coq Require Import ZArith List Bool.
Import ListNotations.
From BT Require Import Model.Timer Spec.TimerSpec.
Open Scope Z_scope.
Definition tol := @TOL@.
Definition case := (bool * Z * Z * Z * Z * Z)%type.
Definition cases : list case := [
@ROWS@ ].
Fixpoint idx {A : Type} (f : A -> bool) (l : list A) (i : nat) : list nat :=
  match l with nil => @nil nat | x :: t => (if f x then cons i nil else @nil nat) ++ idx f t (S i) end.
Definition early := idx (fun c : case => match c with (ev, d, lo, hi, el, ctl) => negb (obs_not_early ev lo d el tol) end) cases 0%nat.
Definition late := idx (fun c : case => match c with (ev, d, lo, hi, el, ctl) => (50000000 <=? d) && obs_late d el ctl && (next_multiple lo d =? next_multiple hi d) end) cases 0%nat.
""".replace("@TOL@", str(TOL_NS)).replace("@ROWS@", ";\n".join(rows))
    body = []
    defs = ["early", "late"]
    # model correspondence is only meaningful while gen/TimerExpr.v compiles
    gen_ok, _ = C.coq_make(["gen/TimerExpr.vo"])
    if gen_ok:
        body.append("From BTGen Require Import TimerExpr.")
        body.append("Definition model_mismatch := idx (fun c : case => match c with (ev, d, lo, hi, el, ctl) => "
                    "let w := if ev then Z.min (every_delay lo d) (every_delay hi d) else tick_delay lo d in "
                    "let wspec := if ev then next_multiple hi d - lo else d in "
                    "negb (w <=? el + tol) || ((50000000 <=? d) && (d <=? 2 * ((el - w) - (ctl - wspec))) && (next_multiple lo d =? next_multiple hi d)) end) cases 0%nat.")
        defs.append("model_mismatch")
    vals, dt = C.coq_eval("cases_C20", pre, body, defs)
    early = C.parse_nat_list(C.parse_coq_value(vals["early"]))
    late = C.parse_nat_list(C.parse_coq_value(vals["late"]))
    mism = C.parse_nat_list(C.parse_coq_value(vals["model_mismatch"])) if gen_ok else []
    once_bad = [i for i, r in enumerate(recs) if r["calls"] != 1 or not r["msg_ok"]]
    for r in recs:
        res.count((r["kind"], r["d"], r["phase"] * 8 // r["d"], r["pre_run"] > 0))
    res.samples = recs[:4]
    hist = {}
    for r in recs:
        k = "%s d=%dms" % (r["kind"], r["d"] // 1000000)
        hist[k] = hist.get(k, 0) + 1
    res.coverage["input_distribution"] = hist
    res.coverage["traces_validated_against_impl"] = len(recs)
    res.oblige("K2:real timers never early (Spec.obs_not_early on %d real runs)" % len(recs), not early, [recs[i] for i in early[:3]])
    res.oblige("K2:real timers not a period late vs control timer", len(late) < 2, [recs[i] for i in late[:3]])
    res.oblige("K2:callback invoked once and its result is the message", not once_bad, [recs[i] for i in once_bad[:3]])
    res.oblige("K2:generated delay expression agrees with real firing times", len(mism) < 2, [recs[i] for i in mism[:3]])
    found = False
    if early:
        res.violation("C20:early:%s" % recs[early[0]]["kind"], "timer command delivered its message before the required instant",
                      {"record": recs[early[0]], "tol_ns": TOL_NS})
        found = True
    if len(late) >= 2:
        res.violation("C20:late:%s" % recs[late[0]]["kind"], "timer command fired >= half a period after the next whole multiple (control timer armed for the Spec delay fired on time)",
                      {"records": [recs[i] for i in late[:4]]})
        found = True
    if once_bad:
        res.violation("C20:once:%s" % recs[once_bad[0]]["kind"], "callback not invoked exactly once or its result is not the delivered message",
                      {"record": recs[once_bad[0]]})
        found = True
    if not found and (not proofs_ok or len(mism) >= 2):
        what = "proof obligation broken: %s" % (broken,) if not proofs_ok else "correspondence broken: generated delay expression disagrees with real timers"
        res.violation("C20:obligation", what, {"broken": broken, "mismatch_records": [recs[i] for i in mism[:4]],
                                               "searched": "%d real timer runs over %d durations x phases; Spec held on all" % (len(recs), len(hist))},
                      found_input=False)
    return res.finish(
        rule="real Tick/Every commands at 8 (quick) or 16 (thorough) phases of the period x durations x random pre-run delay; distinct = (kind, d, phase octant, pre-run>0)",
        trusted_extra=["Go runtime timers and clocks (time.NewTimer fires no earlier than asked; hypothesis runtime_timer_ok of C20_*_partial)",
                       "clock-reading tolerance %d ns in the real-run not-early check" % TOL_NS])


def replay(res, path):
    """Timer runs are not replayable bit for bit (they depend on the clock); the
    replay re-runs the same tier and seed and prints the recorded observation."""
    import json
    d = json.load(open(path))
    print(json.dumps(d, indent=1)[:2000])
    return run(res, d.get("tier", "quick"), d.get("seed", 1))
