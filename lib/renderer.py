"""Renderer family (C06 C07 C12 C14 C19): history generator, tokenizer, Coq
case files (model equality K2 + the screen oracle evaluated on the REAL
token stream)."""
import json
import os
import random
import re
from concurrent.futures import ThreadPoolExecutor

from . import common as C


# ------------------------------------------------------------------ tokenizer

def tokenize(bs):
    """bytes (list of int) -> list of token tuples, or None when something
    outside the modelled token alphabet appears (a disagreement in itself)."""
    out = []
    i, n = 0, len(bs)
    while i < n:
        b = bs[i]
        if 32 <= b <= 126:
            out.append(("char", b)); i += 1   # noqa: E702
        elif b == 13:
            out.append(("cr",)); i += 1   # noqa: E702
        elif b == 10:
            out.append(("lf",)); i += 1   # noqa: E702
        elif b == 27 and i + 1 < n and bs[i + 1] == 91:
            j = i + 2
            while j < n and (48 <= bs[j] <= 63):
                j += 1
            if j >= n:
                return None
            params = bytes(bs[i + 2:j]).decode("latin1")
            f = chr(bs[j])
            i = j + 1
            if params.startswith("?") and f in "hl":
                try:
                    m = int(params[1:])
                except ValueError:
                    return None
                out.append(("set" if f == "h" else "reset", m))
            elif f == "A":
                out.append(("cuu", int(params) if params else 1))
            elif f == "D":
                out.append(("cub", int(params) if params else 1))
            elif f == "B" and (params == "" or params.isdigit()):
                out.append(("cud", int(params) if params else 1))
            elif f == "C" and (params == "" or params.isdigit()):
                out.append(("cuf", int(params) if params else 1))
            elif f == "H":
                if params == "":
                    out.append(("home",))
                else:
                    m = re.match(r'^(\d*);(\d*)$', params)
                    if not m or m.group(2) not in ("", "1"):
                        return None
                    r = int(m.group(1)) if m.group(1) else 1
                    out.append(("cup", r))
            elif f == "K":
                if params in ("", "0"):
                    out.append(("elright",))
                elif params == "2":
                    out.append(("elall",))
                else:
                    return None
            elif f == "J":
                if params in ("", "0"):
                    out.append(("edbelow",))
                elif params == "2":
                    out.append(("edall",))
                else:
                    return None
            else:
                return None
        elif b == 27 and i + 3 < n and bs[i + 1] == 93 and bs[i + 2] == 50 and bs[i + 3] == 59:
            j = i + 4
            while j < n and bs[j] != 7:
                j += 1
            if j >= n:
                return None
            out.append(("title", bs[i + 4:j]))
            i = j + 1
        else:
            return None
    return out


def coq_tok(t):
    k = t[0]
    if k == "char":
        return "TChar %d" % t[1]
    if k in ("cr", "lf", "home", "elright", "elall", "edbelow", "edall"):
        return {"cr": "TCR", "lf": "TLF", "home": "THome", "elright": "TELright", "elall": "TELall", "edbelow": "TEDbelow", "edall": "TEDall"}[k]
    if k == "cuu":
        return "TCUU %d%%nat" % t[1]
    if k == "cub":
        return "TCUB %d%%nat" % t[1]
    if k == "cud":
        return "TCUD %d" % t[1]
    if k == "cuf":
        return "TCUF %d" % t[1]
    if k == "cup":
        return "TCUP %d%%nat" % t[1]
    if k == "set":
        return "TSet %d" % t[1]
    if k == "reset":
        return "TReset %d" % t[1]
    if k == "title":
        return "TTitle %s" % C.zlist(t[1])
    raise ValueError(t)


def coq_toks(ts):
    return "[" + "; ".join(coq_tok(t) for t in ts) + "]"


# ------------------------------------------------------------------ ops

def coq_rop(op):
    k = op["op"]
    if k == "write":
        return "OWrite %s" % C.zlist(op["s"])
    if k == "flush":
        return "OFlush"
    if k == "resize":
        return "OResize %d%%nat %d%%nat" % (op["w"], op["h"])
    if k == "print":
        return "OPrint %s" % C.zlist(op["s"])
    if k == "mouse":
        return "OMouse %d %s" % (op["m"], "true" if op["on"] else "false")
    if k == "paste":
        return "OPaste %s" % ("true" if op["on"] else "false")
    if k == "focus":
        return "OFocus %s" % ("true" if op["on"] else "false")
    return {"enteralt": "OEnterAlt", "exitalt": "OExitAlt", "clear": "OClear", "repaint": "ORepaint", "show": "OShowCursor",
            "hide": "OHideCursor", "stop": "OStop", "kill": "OKill"}[k]


def coq_sop(op, first_resize):
    k = op["op"]
    if k == "write":
        return "SWrite %s" % C.zlist(op["s"])
    if k == "flush":
        return "SFlush"
    if k == "resize":
        return "SOther" if first_resize else "SResizeAlt %d%%nat %d%%nat" % (op["w"], op["h"])
    if k == "print":
        return "SPrint %s" % C.zlist(op["s"])
    return {"enteralt": "SEnterAlt", "exitalt": "SExitAlt", "clear": "SClear", "stop": "SStop"}.get(k, "SOther")


# ------------------------------------------------------------------ generator

ALPHA = [ord(c) for c in "abcdefghijklmnopqrstuvwxyz0123456789 .#"]


def rand_line(rnd, w):
    c = rnd.random()
    if c < 0.15:
        n = 0
    elif c < 0.3:
        n = w
    elif c < 0.4:
        n = w + rnd.randint(1, 3)
    elif c < 0.5:
        n = max(0, w - 1)
    else:
        n = rnd.randint(0, max(1, w))
    l = [rnd.choice(ALPHA) for _ in range(n)]
    if rnd.random() < 0.1 and n:
        l = [32] * n
    return l


def mutate_view(rnd, prev, w, h):
    lines = [list(l) for l in prev]
    c = rnd.random()
    if c < 0.08:
        return []                                  # empty view
    if c < 0.16 or not lines:
        return [rand_line(rnd, w) for _ in range(rnd.randint(1, h + 2))]
    if c < 0.4:
        for _ in range(rnd.randint(1, 2)):
            lines[rnd.randrange(len(lines))] = rand_line(rnd, w)
        return lines
    if c < 0.55:
        return lines[:max(1, len(lines) - rnd.randint(1, 3))]       # shrink, lines unchanged
    if c < 0.65:
        k = max(1, len(lines) - rnd.randint(1, 2))
        lines = lines[:k]
        lines[-1] = rand_line(rnd, w)
        return lines
    if c < 0.8:
        return lines + [rand_line(rnd, w) for _ in range(rnd.randint(1, 3))]
    if c < 0.88:
        return lines[rnd.randint(1, len(lines)):] or [rand_line(rnd, w)]   # drop head
    if c < 0.94:
        return lines + [[]]                        # trailing newline
    return lines


def join_view(lines):
    out = []
    for i, l in enumerate(lines):
        if i:
            out.append(10)
        out += l
    return out


def gen_history(rnd, nops, sizes=None, allow_alt=True, allow_print=True, allow_clear=True, end_stop=None):
    w, h = sizes or rnd.choice([(rnd.randint(1, 12), rnd.randint(1, 8))] * 6 + [(80, 24), (10, 3), (5, 5), (1, 1), (2, 4)])
    hist = [[rnd.choice(ALPHA) for _ in range(w)] for _ in range(rnd.randint(0, 3))]
    used = rnd.randint(0, min(len(hist), h - 1)) if h > 1 else 0
    ops = [{"op": "resize", "w": w, "h": h}]
    view = []
    alt = False
    resized = False      # after a resize in the alt screen the main screen's reflow is the terminal's business: stay in alt
    while len(ops) < nops:
        c = rnd.random()
        if resized and 0.68 <= c < 0.8:
            c = 0.1
        if c < 0.5:
            view = mutate_view(rnd, view, w, h)
            ops.append({"op": "write", "s": join_view(view)})
            if rnd.random() < 0.85:
                ops.append({"op": "flush"})
        elif c < 0.56:
            ops.append({"op": "flush"})
        elif c < 0.68 and allow_print:
            body = join_view([rand_print_line(rnd, w) for _ in range(rnd.choice([1, 1, 1, 2, 3]))])
            ops.append({"op": "print", "s": body})
            if rnd.random() < 0.5:
                ops.append({"op": "write", "s": join_view(view)})
                ops.append({"op": "flush"})
        elif c < 0.76 and allow_alt:
            ops.append({"op": "exitalt" if alt else "enteralt"})
            alt = not alt
            ops.append({"op": "write", "s": join_view(view)})
            ops.append({"op": "flush"})
        elif c < 0.8 and allow_alt:
            ops.append({"op": "enteralt" if alt else "exitalt"})   # idempotent no-op
        elif c < 0.85 and allow_clear:
            ops.append({"op": "clear"})
            ops.append({"op": "write", "s": join_view(view)})
            ops.append({"op": "flush"})
        elif c < 0.88:
            ops.append({"op": "repaint"})
        elif c < 0.93 and alt:
            w, h = max(1, w + rnd.randint(-3, 3)), max(1, h + rnd.randint(-3, 3))
            resized = True
            ops.append({"op": "resize", "w": w, "h": h})
            ops.append({"op": "write", "s": join_view(view)})
            ops.append({"op": "flush"})
        else:
            ops.append(rnd.choice([{"op": "show"}, {"op": "hide"}, {"op": "mouse", "m": 1002, "on": True}, {"op": "mouse", "m": 1003, "on": False},
                                   {"op": "mouse", "m": 1006, "on": True}, {"op": "paste", "on": True}, {"op": "paste", "on": False},
                                   {"op": "focus", "on": True}, {"op": "focus", "on": False}]))
    if end_stop if end_stop is not None else rnd.random() < 0.5:
        view = mutate_view(rnd, view, w, h)
        ops.append({"op": "write", "s": join_view(view)})
        ops.append({"op": "stop"})
    return {"w0": ops[0]["w"], "h0": ops[0]["h"], "history": hist, "used": used, "ops": ops}


def rand_print_line(rnd, w):
    n = rnd.choice([0, 1, max(0, w - 1), w, w + 1, 2 * w, 2 * w + 3, rnd.randint(0, 2 * w + 2)])
    return [rnd.choice(ALPHA) for _ in range(n)]


# ------------------------------------------------------------------ evaluate

COQ_PRE = """From Coq Require Import NArith List Bool Arith.
Import ListNotations.
From BT Require Import Base.Bytes Model.VT Model.Renderer Spec.Screen.
Open Scope N_scope.
Fixpoint idx {A : Type} (f : A -> bool) (l : list A) (i : nat) : list nat :=
  match l with nil => @nil nat | x :: t => (if f x then cons i nil else @nil nat) ++ idx f t (S i) end.
Definition tok_eqb (a b : tok) : bool :=
  match a, b with
  | TChar x, TChar y => x =? y
  | TCR, TCR | TLF, TLF | THome, THome | TELright, TELright | TELall, TELall | TEDbelow, TEDbelow | TEDall, TEDall => true
  | TCUU x, TCUU y | TCUB x, TCUB y | TCUP x, TCUP y => Nat.eqb x y
  | TSet x, TSet y | TReset x, TReset y => x =? y
  | TTitle x, TTitle y => bytes_eqb x y
  | _, _ => false
  end.
Fixpoint toks_eqb (a b : list tok) : bool :=
  match a, b with [], [] => true | x :: a', y :: b' => tok_eqb x y && toks_eqb a' b' | _, _ => false end.
Fixpoint outs_eqb (a b : list (list tok)) : bool :=
  match a, b with [], [] => true | x :: a', y :: b' => toks_eqb x y && outs_eqb a' b' | _, _ => false end.
(* case: W, H, initial rows above, rows of them inside the window, ops with the real tokens *)
Definition rcase := (nat * nat * list row * nat * list (rop * sop * list tok))%type.
Definition model_ok (c : rcase) : bool :=
  let '(w, h, hist, used, ops) := c in
  outs_eqb (snd (r_run r_init (map (fun x => fst (fst x)) ops))) (map snd ops).
Definition oracle (shared : bool) (c : rcase) : list (nat * nat) :=
  let '(w, h, hist, used, ops) := c in
  o_run shared (o_init w h hist used) (map (fun x => (snd (fst x), snd x)) ops) 0.
Definition oracle_ok (c : rcase) : bool :=
  match oracle true c, oracle false c with [], [] => true | _, _ => false end.
"""


def coq_case(case, out_toks):
    first = True
    items = []
    for op, toks in zip(case["ops"], out_toks):
        fr = first and op["op"] == "resize"
        if op["op"] == "resize":
            first = False
        items.append("(%s, %s, %s)" % (coq_rop(op), coq_sop(op, fr), coq_toks(toks)))
    return "(%d%%nat, %d%%nat, [%s], %d%%nat, [%s])" % (
        case["w0"], case["h0"], "; ".join(C.zlist(r) for r in case["history"]), case["used"], ";\n  ".join(items))


def run_real(name, cases):
    os.makedirs(C.CASES, exist_ok=True)
    ip = os.path.join(C.CASES, name + ".in.jsonl")
    op = os.path.join(C.CASES, name + ".out.jsonl")
    with open(ip, "w") as f:
        for i, c in enumerate(cases):
            f.write(json.dumps({"id": i, "ops": c["ops"]}) + "\n")
    rc, out, dt = C.run_harness(["renderer", "-out", op, ip], timeout=900)
    if rc != 0:
        raise C.Fail("renderer harness failed: " + out[-2000:])
    outs = C.read_jsonl(op)
    assert len(outs) == len(cases)
    return outs


def evaluate(name, cases, outs, shard=60, timeout=1500):
    """returns (bad_model idx list, {idx: oracle failures}, untokenizable idx list)"""
    coq_cases, index = [], []
    untok = []
    for i, (c, o) in enumerate(zip(cases, outs)):
        if o.get("panic"):
            untok.append(i)
            continue
        toks = [tokenize(b) for b in o["outs"]]
        if any(t is None for t in toks):
            untok.append(i)
            continue
        coq_cases.append(coq_case(c, toks))
        index.append(i)
    jobs = []
    for k in range(0, len(coq_cases), shard):
        part = coq_cases[k:k + shard]
        body = ["Definition cases : list rcase := [\n%s ]." % ";\n".join(part),
                "Definition bad_model := idx (fun c => negb (model_ok c)) cases 0%nat.",
                "Definition bad_oracle := idx (fun c => negb (oracle_ok c)) cases 0%nat.",
                "Definition oracle_detail := map (fun i => (i, oracle true (nth i cases (0%nat,0%nat,[],0%nat,[])), oracle false (nth i cases (0%nat,0%nat,[],0%nat,[])))) (firstn 3 bad_oracle)."]
        jobs.append(("%s_%d" % (name, k // shard), body, k))

    def work(job):
        nm, body, base = job
        vals, dt = C.coq_eval(nm, COQ_PRE, body, ["bad_model", "bad_oracle", "oracle_detail"], timeout=timeout)
        bm = [index[base + i] for i in C.parse_nat_list(C.parse_coq_value(vals["bad_model"]))]
        bo = [index[base + i] for i in C.parse_nat_list(C.parse_coq_value(vals["bad_oracle"]))]
        return bm, bo, C.parse_coq_value(vals["oracle_detail"]), dt
    bad_model, bad_oracle, details, total = [], [], [], 0.0
    with ThreadPoolExecutor(max_workers=14) as ex:
        for bm, bo, det, dt in ex.map(work, jobs):
            bad_model += bm
            bad_oracle += bo
            if det not in ("[]", "nil"):
                details.append(det)
            total += dt
    return sorted(bad_model), sorted(bad_oracle), untok, details, round(total, 1), len(jobs)


def fail_sig(detail):
    """first failure code from the printed oracle detail: 1 view, 2 above, 3 final"""
    m = re.search(r'\((\d+)%nat, (\d+)%nat\)', detail)
    if not m:
        m = re.search(r'\((\d+), (\d+)\)', detail)
    code = int(m.group(2)) if m else 0
    return {1: "view-wrong", 2: "rows-above-wrong", 3: "final-wrong"}.get(code, "screen-wrong"), (int(m.group(1)) if m else -1)


# ------------------------------------------------------------ family driver

CORPUS = os.path.join(C.VERIF, "harness", "corpus", "renderer.jsonl")


def load_corpus(prop):
    out = []
    if os.path.exists(CORPUS):
        for d in C.read_jsonl(CORPUS):
            if prop in d.get("props", []):
                out.append(d)
    return out


def history_stats(cases):
    h = {}
    for c in cases:
        for o in c["ops"]:
            h[o["op"]] = h.get(o["op"], 0) + 1
    sizes = {}
    for c in cases:
        k = "%dx%d" % (c["w0"], c["h0"])
        sizes[k] = sizes.get(k, 0) + 1
    return {"histories": len(cases), "ops": h, "ops_total": sum(h.values()),
            "sizes_top": dict(sorted(sizes.items(), key=lambda kv: -kv[1])[:8]), "distinct_sizes": len(sizes)}


def shrink_history(name, case, pred):
    """delta-debug: drop ops (never the initial resize) while pred(case) still fails."""
    ops = case["ops"]
    i, budget = 1, 40
    while i < len(ops) and budget > 0:
        cand = dict(case)
        cand["ops"] = ops[:i] + ops[i + 1:]
        budget -= 1
        if pred(cand):
            ops = cand["ops"]
        else:
            i += 1
    out = dict(case)
    out["ops"] = ops
    return out


def run_family(res, prop, prop_mod, cases, rule="", extra_real_oracle=None, signature_filter=None, extra_trusted=None):
    proofs_ok, broken = C.proof_obligations(res, prop_mod)
    okb, out = C.build_harness()
    if not okb:
        raise C.Fail("harness build failed (does /repo still compile with -tags verif?):\n" + out[-3000:])
    cases = load_corpus(prop) + cases
    outs = run_real(prop, cases)
    bad_model, bad_oracle, untok, details, cpu, shards = evaluate(prop, cases, outs)
    for c in cases:
        res.count(hash(json.dumps(c["ops"], sort_keys=True) + str(c["history"])))
    res.coverage["input_distribution"] = history_stats(cases)
    res.coverage["traces_validated_against_impl"] = len(cases)
    res.coverage["coq_eval"] = {"shards": shards, "cpu_seconds": cpu}
    res.samples = [{"w": c["w0"], "h": c["h0"], "ops": [(o["op"], bytes(o.get("s", [])).decode("latin1") if "s" in o else (o.get("w"), o.get("h")) if o["op"] == "resize" else "") for o in c["ops"]][:14],
                    "real_bytes_per_op": [len(b) for b in o["outs"]][:14]} for c, o in list(zip(cases, outs))[:3]]
    res.oblige("K2:renderer model tokens = real output on %d histories" % len(cases), not bad_model and not untok,
               [cases[i]["ops"][:12] for i in (bad_model + untok)[:2]])
    res.oblige("Spec on real output: screen oracle (vt applied to the real tokens; both cursor-visibility conventions) on %d histories" % len(cases),
               not bad_oracle, details[:2])
    found = False
    if bad_oracle:
        i = bad_oracle[0]

        def pred(cand):
            o2 = run_real(prop + "_shrink", [cand])
            _, bo, _, _, _, _ = evaluate(prop + "_shrink", [cand], o2)
            return bool(bo)
        small = shrink_history(prop, cases[i], pred)
        o2 = run_real(prop + "_shrink", [small])
        _, _, _, det2, _, _ = evaluate(prop + "_shrink", [small], o2)
        sig, at = fail_sig(det2[0] if det2 else (details[0] if details else ""))
        res.violation("%s:%s" % (prop, sig), "after a render the terminal does not show what the property requires (%s at op %d of the shrunk history)" % (sig, at),
                      {"case": small, "real_outs": o2[0]["outs"], "oracle": det2[:1]})
        found = True
    if extra_real_oracle:
        bad = []
        for i, (c, o) in enumerate(zip(cases, outs)):
            r = extra_real_oracle(c, o)
            if r:
                bad.append((i, r))
        res.oblige("Spec on real output: property-specific oracle", not bad, [r for _, r in bad[:2]])
        for i, r in bad[:1]:
            res.violation(r[0], r[1], {"case": cases[i], "real_outs": outs[i]["outs"]})
            found = True
    if not found and untok:
        # the real output left the Coq terminal's alphabet: look for a failing point with the Python terminal (a search
        # for a replayable input, not an obligation)
        from . import widevt
        for i in untok[:400]:
            if outs[i].get("panic"):
                continue
            hit = widevt.replay_history(cases[i], outs[i]["outs"])
            if hit:
                res.violation("%s:screen-wrong:outside-alphabet" % prop, "the renderer wrote a sequence outside the modelled subset and %s (at op %d)" % (hit[1], hit[0]),
                              {"case": cases[i], "real_outs": outs[i]["outs"]})
                found = True
                break
    if not found and (not proofs_ok or bad_model or untok):
        what = []
        if not proofs_ok:
            what.append("proof obligation no longer checks: %s" % (broken,))
        if bad_model or untok:
            what.append("correspondence renderer model/implementation broken on %d histories (the screen oracle still holds on the real output)" % len(bad_model + untok))
        mm = (bad_model + untok)[:2]
        res.violation("%s:obligation" % prop, "; ".join(what),
                      {"broken": broken, "mismatching_cases": [cases[i] for i in mm], "real_outs": [outs[i]["outs"] for i in mm],
                       "searched": "%d histories; oracle held on all real outputs" % len(cases)}, found_input=False)
    return res.finish(rule=rule, trusted_extra=(extra_trusted or []) + [
        "terminal model Model/VT.v = the stated xterm subset (autowrap with pending-wrap flag, LF scrolls at the bottom row, CUU/CUB clamp, ED/EL erase from the cursor cell, 1049 saves/restores the cursor and clears the alt buffer); real terminals are not in the loop",
        "tokenizer lib/renderer.py (bytes -> tokens); x/ansi constant strings",
        "theorems are about width-1 printable glyphs (ansi.StringWidth = length, ansi.Truncate = firstn); wide runes / embedded SGR are outside the theorem"])


def replay_family(res, prop, prop_mod, path, **kw):
    d = json.load(open(path))
    cases = []
    if d.get("case"):
        cases.append(d["case"])
    for c in d.get("mismatching_cases", []):
        cases.append(c)
    if not cases:
        raise C.Fail("replay file has no case: " + path)
    global load_corpus
    saved = load_corpus
    load_corpus = lambda prop: []   # noqa: E731
    try:
        rc = run_family(res, prop, prop_mod, cases, rule="replay of " + os.path.basename(path), **kw)
    finally:
        load_corpus = saved
    ev = json.load(open(os.path.join(C.EVID, prop + ".json")))
    print(json.dumps(ev["coverage"]["samples"], indent=1)[:3000])
    return rc
