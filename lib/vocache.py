"""Optional cache of compiled Coq files, keyed by the content of every .v source (gen/ and theories/) and _CoqProject.
Only the seed-sweep tools switch it on (VERIF_VOCACHE=1): after a seeded change has been reverted the sources are
byte-identical to an earlier full build, and that build's files are put back instead of being recompiled.  Entries are
stored only right after a complete, successful `make` of the whole project."""
import hashlib
import os
import shutil
import subprocess
import time

from . import common as C

ROOT = os.path.join(C.COQ, ".vocache")
EXT = (".vo", ".vos", ".vok", ".glob")


def key():
    h = hashlib.sha1()
    files = [os.path.join(C.COQ, "_CoqProject")]
    for top in ("gen", "theories"):
        for d, _, fs in os.walk(os.path.join(C.COQ, top)):
            files += [os.path.join(d, f) for f in fs if f.endswith(".v")]
    for f in sorted(files):
        h.update(os.path.relpath(f, C.COQ).encode() + b"\0")
        h.update(open(f, "rb").read())
        h.update(b"\0")
    return h.hexdigest()


def store():
    """full make, then copy the products; returns True when stored"""
    C.ensure_makefile()
    k = key()
    rc = subprocess.run(["make", "-j16"], cwd=C.COQ, stdout=subprocess.DEVNULL, stderr=subprocess.DEVNULL).returncode
    if rc != 0 or key() != k:
        return False
    dst = os.path.join(ROOT, k)
    if os.path.exists(dst):
        shutil.rmtree(dst)
    for top in ("gen", "theories"):
        for d, _, fs in os.walk(os.path.join(C.COQ, top)):
            for f in fs:
                if f.endswith(EXT):
                    src = os.path.join(d, f)
                    out = os.path.join(dst, os.path.relpath(src, C.COQ))
                    os.makedirs(os.path.dirname(out), exist_ok=True)
                    shutil.copy2(src, out)
    # keep the three most recent entries
    ents = sorted((os.path.getmtime(os.path.join(ROOT, e)), e) for e in os.listdir(ROOT))
    for _, e in ents[:-3]:
        shutil.rmtree(os.path.join(ROOT, e), ignore_errors=True)
    return True


def restore():
    """put the products of an earlier full build of exactly these sources back; returns True when done"""
    src = os.path.join(ROOT, key())
    if not os.path.isdir(src):
        return False
    now = time.time()
    for d, _, fs in os.walk(src):
        for f in fs:
            a = os.path.join(d, f)
            b = os.path.join(C.COQ, os.path.relpath(a, src))
            os.makedirs(os.path.dirname(b), exist_ok=True)
            shutil.copy2(a, b)
            os.utime(b, (now, now))
    return True


if __name__ == "__main__":
    import sys
    print({"store": store, "restore": restore, "key": key}[sys.argv[1]]())
