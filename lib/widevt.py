"""Wide-glyph / styled-text extension of the screen oracle (C06, C07, C19).

The Coq theorems and the Coq terminal model speak about width-1 printable glyphs.  Views containing double-width
runes (CJK) and SGR styling are outside them; this module is the separate, weaker check for that part of the input
space: a small terminal emulator in Python (cells with a width, autowrap with the pending-wrap flag, CR/LF, CUU/CUB/CUP,
EL/ED, SGR ignored, 1049) fed with the REAL renderer's bytes, and the statement "after a render the window shows
exactly the latest view" evaluated on its screen.  Not a proof; it is labelled exploration in the evidence."""
import re
import unicodedata


def cw(ch):
    """cell width of one rune as x/ansi (uniseg) sees the runes used here: East Asian Wide / Fullwidth = 2"""
    return 2 if unicodedata.east_asian_width(ch) in ("W", "F") else 1


SGR = re.compile(r'\x1b\[[0-9;]*m')


def strip_sgr(s):
    return SGR.sub("", s)


def width(s):
    return sum(cw(c) for c in strip_sgr(s))


def truncate(s, w):
    """what ansi.Truncate(line, w, "") keeps, as plain text: runes while they fit; a wide rune that would straddle the
    margin is dropped together with everything after it"""
    out, n = [], 0
    for c in strip_sgr(s):
        k = cw(c)
        if n + k > w:
            break
        out.append(c)
        n += k
    return "".join(out)


class Screen:
    """one buffer: rows of cells; a cell is a rune, or None for the right half of a wide rune"""

    def __init__(self, w, h, rows=None):
        self.w, self.h = w, h
        self.rows = [[" "] * w for _ in range(h)]
        self.r = self.c = 0
        self.pend = False
        self.hist = []          # rows that scrolled off the top, oldest first (text)
        if rows:
            for i, t in enumerate(rows[:h]):
                self._put_text(i, t)
            self.r = min(len(rows), h - 1)

    def _put_text(self, i, t):
        c = 0
        for ch in t:
            k = cw(ch)
            if c + k > self.w:
                break
            self.rows[i][c] = ch
            if k == 2:
                self.rows[i][c + 1] = None
            c += k

    def text(self, i):
        return "".join(x for x in self.rows[i] if x is not None).rstrip(" ")

    def lf(self):
        if self.r == self.h - 1:
            self.hist.append(self.text(0))
            self.rows.pop(0)
            self.rows.append([" "] * self.w)
        else:
            self.r += 1

    def put(self, ch):
        k = cw(ch)
        if self.pend or self.c + k > self.w:
            self.c = 0
            self.pend = False
            self.lf()
        row = self.rows[self.r]
        # overwriting half of a wide rune blanks its other half
        if row[self.c] is None and self.c > 0:
            row[self.c - 1] = " "
        if k == 1 and self.c + 1 < self.w and row[self.c + 1] is None:
            row[self.c + 1] = " "
        row[self.c] = ch
        if k == 2:
            if self.c + 2 < self.w and row[self.c + 2] is None:
                row[self.c + 2] = " "
            row[self.c + 1] = None
        self.c += k
        if self.c >= self.w:
            self.c = self.w - 1
            self.pend = True

    def erase_right(self):
        row = self.rows[self.r]
        c = self.c
        if row[c] is None and c > 0:
            row[c - 1] = " "
        for j in range(c, self.w):
            row[j] = " "
        self.pend = False

    def erase_below(self):
        self.erase_right()
        for i in range(self.r + 1, self.h):
            self.rows[i] = [" "] * self.w


class VT:
    def __init__(self, w, h, rows=None):
        self.w, self.h = w, h
        self.main = Screen(w, h, rows)
        self.alt = Screen(w, h)
        self.in_alt = False

    @property
    def s(self):
        return self.alt if self.in_alt else self.main

    def feed(self, data):
        """data: bytes.  Returns False when a sequence outside the emulated subset appears."""
        txt = data.decode("utf-8", "replace")
        i, n = 0, len(txt)
        while i < n:
            ch = txt[i]
            if ch == "\x1b":
                m = re.match(r'\x1b\[([0-9;?]*)([A-Za-z])', txt[i:])
                if not m:
                    m2 = re.match(r'\x1b\]2;[^\x07]*\x07', txt[i:])
                    if m2:
                        i += m2.end()
                        continue
                    return False
                p, f = m.group(1), m.group(2)
                i += m.end()
                s = self.s
                if f == "m":
                    continue
                if f in "hl" and p.startswith("?"):
                    if p == "?1049":
                        if f == "h" and not self.in_alt:
                            self.alt = Screen(self.w, self.h)
                            self.alt.r, self.alt.c = self.main.r, self.main.c
                            self.in_alt = True
                        elif f == "l":
                            self.in_alt = False
                    continue
                num = int(p) if p.isdigit() else 1
                if f == "A":
                    s.r = max(0, s.r - max(1, num))
                    s.pend = False
                elif f == "D":
                    s.c = max(0, s.c - max(1, num))
                    s.pend = False
                elif f == "B":          # cursor down: stops at the bottom row, never scrolls
                    s.r = min(self.h - 1, s.r + max(1, num))
                    s.pend = False
                elif f == "C":          # cursor forward
                    s.c = min(self.w - 1, s.c + max(1, num))
                    s.pend = False
                elif f == "E":          # cursor next line
                    s.r = min(self.h - 1, s.r + max(1, num))
                    s.c = 0
                    s.pend = False
                elif f == "G":          # cursor to column
                    s.c = min(self.w - 1, max(1, num) - 1)
                    s.pend = False
                elif f == "H":
                    parts = p.split(";") if p else []
                    s.r = min(self.h - 1, (int(parts[0]) if parts and parts[0] else 1) - 1)
                    s.c = min(self.w - 1, (int(parts[1]) if len(parts) > 1 and parts[1] else 1) - 1)
                    s.pend = False
                elif f == "K":
                    if p in ("", "0"):
                        s.erase_right()
                    elif p == "2":
                        s.rows[s.r] = [" "] * self.w
                        s.pend = False
                    else:
                        return False
                elif f == "J":
                    if p in ("", "0"):
                        s.erase_below()
                    elif p == "2":
                        s.rows = [[" "] * self.w for _ in range(self.h)]
                        s.pend = False
                    else:
                        return False
                else:
                    return False
            elif ch == "\r":
                self.s.c = 0
                self.s.pend = False
                i += 1
            elif ch == "\n":
                self.s.pend = False
                self.s.lf()
                i += 1
            else:
                self.s.put(ch)
                i += 1
        return True

    def window(self):
        return [self.s.text(i) for i in range(self.h)]


def expected_rows(view, w, h):
    """the rows the latest view must occupy: its last h lines, each truncated to w cells"""
    lines = (view if view != "" else " ").split("\n")
    lines = lines[-h:] if h > 0 and len(lines) > h else lines
    return [truncate(l, w).rstrip(" ") for l in lines]


def replay_history(case, outs):
    """Search for a failing point of a renderer history whose real output uses sequences outside the Coq terminal's
    alphabet (so that the Coq oracle could not be evaluated): the same statement, on this module's terminal.  Inline:
    the rows ending at the cursor row hold the latest view, nothing below; alt screen: the first rows hold it, the rest
    blank; after Stop the newline-terminated lines of the final view stand above the cursor row.  Returns None or
    (op index, message).  Histories with prints or inline resizes are skipped (None)."""
    w, h = case["w0"], case["h0"]
    hist = ["".join(chr(b) for b in row).rstrip(" ") for row in case["history"]]
    vt = VT(w, h, hist[len(hist) - case["used"]:] if case["used"] else None)
    latest, alt = None, False
    for k, (op, b) in enumerate(zip(case["ops"], outs)):
        kind = op["op"]
        if kind in ("print",):
            return None
        if kind == "resize":
            if k == 0:
                pass
            elif alt:
                w, h = op["w"], op["h"]
                old = vt
                vt = VT(w, h)
                vt.in_alt, vt.main = True, old.main
            else:
                return None
        if not vt.feed(bytes(b)):
            return None
        if kind == "write":
            latest = bytes(op["s"]).decode("utf-8", "replace")
        elif kind == "enteralt":
            alt = True
        elif kind == "exitalt":
            alt = False
        elif kind in ("flush", "stop") and latest is not None and b:
            p = expected_rows(latest, w, h)
            scr = vt.s
            win = [scr.text(i) for i in range(h)]
            if kind == "flush" and alt:
                if win[:len(p)] != p or any(win[len(p):]):
                    return k, "alt screen shows %r, the view is %r" % (win, p)
            elif kind == "flush":
                r = scr.r
                if r + 1 < len(p) or win[r + 1 - len(p):r + 1] != p or any(win[r + 1:]):
                    return k, "the rows ending at the cursor row %d show %r, the view is %r" % (r, win, p)
            elif not alt:
                r = scr.r
                q = p[:-1]
                if r < len(q) or win[r - len(q):r] != q or any(win[r:]):
                    return k, "after Stop the rows above the cursor row %d show %r, the newline-terminated lines of the final view are %r" % (r, win, q)
    return None


def wrap(line, w):
    """the rows a line written at column 0 occupies on a terminal of width w (autowrap; a wide rune that does not fit in
    the last column wraps early), as texts"""
    rows, cur, n = [], [], 0
    for c in strip_sgr(line):
        k = cw(c)
        if n + k > w:
            rows.append("".join(cur))
            cur, n = [], 0
        cur.append(c)
        n += k
    rows.append("".join(cur))
    return [r.rstrip(" ") for r in rows]
