#!/bin/sh
# Offline build of the verification framework from files on disk.
set -e
cd "$(dirname "$0")"
export GOFLAGS=-mod=mod GOPROXY=off GOSUMDB=off GOTOOLCHAIN=local CGO_ENABLED=0
mkdir -p bin coq/gen coq/cases evidence replay
(cd tools/goextract && go build -o ../../bin/goextract .)
REPO="${VERIF_REPO:-/repo}"
./bin/goextract "$REPO" coq/gen
(cd coq && coq_makefile -f _CoqProject -o Makefile >/dev/null 2>&1 && timeout 3000 make -k -j16 >/dev/null 2>&1 || true)
cp "$REPO/go.sum" harness/go.sum
[ -f harness/go.sum.extra ] && cat harness/go.sum.extra >> harness/go.sum
sed -i "s#^replace github.com/charmbracelet/bubbletea => .*#replace github.com/charmbracelet/bubbletea => $REPO#" harness/go.mod
(cd harness && go build -tags verif -o ../bin/harness .)
echo setup done
