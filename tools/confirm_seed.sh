#!/bin/bash
# usage: confirm_seed.sh <patch.diff> <demo_test.go(.txt)>
# Confirms in a scratch worktree of /repo HEAD: (1) patch applies, builds, existing tests pass;
# (2) demo fails with the patch; (3) demo passes without it.  Removes the worktree.
set -u
export GOFLAGS=-mod=mod GOPROXY=off GOSUMDB=off GOTOOLCHAIN=local
P=$(readlink -f "$1"); D=$(readlink -f "$2")
W=/tmp/confirm_$$
git -C ${VERIF_REPO:-/repo} worktree add --detach $W HEAD >/dev/null 2>&1 || exit 2
cd $W
res=""
git apply "$P" || { echo "APPLY-FAILED"; git -C ${VERIF_REPO:-/repo} worktree remove --force $W; exit 1; }
go build ./ 2>&1 | tail -3
if go test -vet=off -count=1 . >/tmp/confirm_out_$$ 2>&1; then res="$res existing-pass-with-patch"; else res="$res EXISTING-FAIL-WITH-PATCH"; tail -5 /tmp/confirm_out_$$; fi
cp "$D" zz_seed_demo_test.go
if timeout 120 go test -vet=off -count=1 -run 'Seed' . >/tmp/confirm_out_$$ 2>&1; then res="$res DEMO-PASSES-WITH-PATCH(bad)"; else res="$res demo-fails-with-patch"; fi
git checkout -- . 
if timeout 120 go test -vet=off -count=1 -run 'Seed' . >/tmp/confirm_out_$$ 2>&1; then res="$res demo-passes-without-patch"; else res="$res DEMO-FAILS-WITHOUT-PATCH(bad)"; tail -5 /tmp/confirm_out_$$; fi
cd /; git -C ${VERIF_REPO:-/repo} worktree remove --force $W; rm -f /tmp/confirm_out_$$
echo "RESULT:$res"
