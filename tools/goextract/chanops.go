package main

import (
	"fmt"
	"go/ast"
	"go/token"
	"path"
	"strconv"
	"strings"
)

// ChanOps: every channel operation, make(chan), go statement, defer statement
// and Program.Send call of the package, attributed to the enclosing top-level
// function.  Shapes only: nothing here depends on line numbers or local names.
//
// This file also holds the helpers shared with dispatch.go and lifecycle.go
// (text normalisation, callee text, Send-argument normalisation) and a small
// syntactic type resolver that is used to decide whether the operand of a
// `range` is a channel.

// ---- shared helpers

// oneLine collapses every whitespace run (newlines included) to one space.
func oneLine(s string) string { return strings.Join(strings.Fields(s), " ") }

// text is the source text of a node on one line.
func (p *pkgInfo) text(n ast.Node) string { return oneLine(p.src(n)) }

func unparen(e ast.Expr) ast.Expr {
	for {
		pe, ok := e.(*ast.ParenExpr)
		if !ok {
			return e
		}
		e = pe.X
	}
}

// chanText is the text of a channel expression; every call of time.After is
// normalised to exactly "time.After".
func (p *pkgInfo) chanText(e ast.Expr) string {
	e = unparen(e)
	if c, ok := e.(*ast.CallExpr); ok && p.text(unparen(c.Fun)) == "time.After" {
		return "time.After"
	}
	return p.text(e)
}

// calleeText is the text of the called expression; "func" for a literal.
func (p *pkgInfo) calleeText(c *ast.CallExpr) string {
	f := unparen(c.Fun)
	if _, ok := f.(*ast.FuncLit); ok {
		return "func"
	}
	return p.text(f)
}

func isIdent(e ast.Expr, name string) bool {
	id, ok := unparen(e).(*ast.Ident)
	return ok && id.Name == name
}

// recvExpr returns the channel expression when e is a receive `<-c`.
func recvExpr(e ast.Expr) (ast.Expr, *ast.UnaryExpr) {
	if u, ok := unparen(e).(*ast.UnaryExpr); ok && u.Op == token.ARROW {
		return u.X, u
	}
	return nil, nil
}

// sendArg normalises the argument of p.Send: composite literals become `T{}`
// or `T{...}`; everything else is its source text.
func (p *pkgInfo) sendArg(e ast.Expr) string {
	e = unparen(e)
	switch x := e.(type) {
	case *ast.CompositeLit:
		t := ""
		if x.Type != nil {
			t = p.text(x.Type)
		}
		if len(x.Elts) == 0 {
			return t + "{}"
		}
		return t + "{...}"
	case *ast.UnaryExpr:
		if x.Op == token.AND {
			if _, ok := unparen(x.X).(*ast.CompositeLit); ok {
				return "&" + p.sendArg(x.X)
			}
		}
	}
	return p.text(e)
}

// isSendCall recognises `<x>.Send(<one argument>)`.
func isSendCall(c *ast.CallExpr) bool {
	sel, ok := unparen(c.Fun).(*ast.SelectorExpr)
	return ok && sel.Sel.Name == "Send" && len(c.Args) == 1
}

func recvTypeName(fd *ast.FuncDecl) string {
	if fd.Recv == nil || len(fd.Recv.List) != 1 {
		return ""
	}
	t := fd.Recv.List[0].Type
	if s, ok := t.(*ast.StarExpr); ok {
		t = s.X
	}
	if ix, ok := t.(*ast.IndexExpr); ok {
		t = ix.X
	}
	if id, ok := t.(*ast.Ident); ok {
		return id.Name
	}
	return ""
}

// coqLines prints a Coq list with one element per line.
func coqLines(items []string) string {
	if len(items) == 0 {
		return "[]"
	}
	return "[\n  " + strings.Join(items, ";\n  ") + "\n]"
}

func coqPair(a, b string) string { return "(" + coqString(a) + ", " + coqString(b) + ")" }

// callsIn lists the callee texts of all calls below n, in source order.
func (p *pkgInfo) callsIn(n ast.Node, closeWithArgs bool) []string {
	var out []string
	ast.Inspect(n, func(m ast.Node) bool {
		if c, ok := m.(*ast.CallExpr); ok {
			if closeWithArgs && isIdent(c.Fun, "close") {
				out = append(out, p.text(c))
			} else {
				out = append(out, p.calleeText(c))
			}
		}
		return true
	})
	return out
}

// deferText normalises a defer statement (see the documentation of `defers`).
func (p *pkgInfo) deferText(d *ast.DeferStmt) string {
	c := d.Call
	f := unparen(c.Fun)
	if lit, ok := f.(*ast.FuncLit); ok {
		return "func:" + strings.Join(p.callsIn(lit.Body, false), ",")
	}
	if isIdent(f, "close") {
		return p.text(c)
	}
	if len(c.Args) == 1 {
		if lit, ok := unparen(c.Args[0]).(*ast.FuncLit); ok {
			return p.calleeText(c) + ":" + strings.Join(p.callsIn(lit.Body, true), ",")
		}
	}
	return p.calleeText(c)
}

// ---- top-level units: function bodies and package variable initialisers

type topUnit struct {
	name string
	fd   *ast.FuncDecl // nil for a package variable initialiser
	root ast.Node
}

// topName: the method name alone, qualified with the receiver type when a
// non-Program receiver's method collides with a Program method or a plain
// function of the same name (channelHandlers.shutdown vs Program.shutdown).
func (p *pkgInfo) topName(fd *ast.FuncDecl) string {
	r := recvTypeName(fd)
	if r == "" || r == "Program" {
		return fd.Name.Name
	}
	if p.funcDecl("Program", fd.Name.Name) != nil || p.funcDecl("", fd.Name.Name) != nil {
		return r + "." + fd.Name.Name
	}
	return fd.Name.Name
}

func (p *pkgInfo) topUnits() []topUnit {
	var us []topUnit
	for _, fn := range p.names {
		for _, d := range p.files[fn].Decls {
			switch x := d.(type) {
			case *ast.FuncDecl:
				if x.Body != nil {
					us = append(us, topUnit{name: p.topName(x), fd: x, root: x.Body})
				}
			case *ast.GenDecl:
				if x.Tok != token.VAR {
					continue
				}
				for _, s := range x.Specs {
					vs := s.(*ast.ValueSpec)
					for i, v := range vs.Values {
						n := vs.Names[0].Name
						if i < len(vs.Names) {
							n = vs.Names[i].Name
						}
						us = append(us, topUnit{name: n, root: v})
					}
				}
			}
		}
	}
	return us
}

// ---- a small syntactic type resolver (for `range` operands and make(T))

type localDecl struct {
	name    string
	declPos token.Pos // visible from here on ...
	lo, hi  token.Pos // ... inside this scope
	typ     ast.Expr  // declared type, or
	val     ast.Expr  // initialising expression,
	idx     int       // its idx-th value (-1: single valued),
	rng     int       // 1: key, 2: value of `range val`
}

type typeRes struct {
	p       *pkgInfo
	types   map[string]ast.Expr
	vars    map[string]*localDecl
	funcs   map[string]*ast.FuncDecl
	methods map[string][]*ast.FuncDecl
	fields  map[string][]ast.Expr
	imports map[string]bool
	locals  []localDecl
}

func newTypeRes(p *pkgInfo) *typeRes {
	tr := &typeRes{p: p, types: map[string]ast.Expr{}, vars: map[string]*localDecl{}, funcs: map[string]*ast.FuncDecl{},
		methods: map[string][]*ast.FuncDecl{}, fields: map[string][]ast.Expr{}, imports: map[string]bool{}}
	for _, fn := range p.names {
		f := p.files[fn]
		for _, im := range f.Imports {
			if im.Name != nil {
				tr.imports[im.Name.Name] = true
			} else if s, err := strconv.Unquote(im.Path.Value); err == nil {
				tr.imports[path.Base(s)] = true
			}
		}
		for _, d := range f.Decls {
			switch x := d.(type) {
			case *ast.FuncDecl:
				if x.Recv == nil {
					tr.funcs[x.Name.Name] = x
				} else {
					tr.methods[x.Name.Name] = append(tr.methods[x.Name.Name], x)
				}
			case *ast.GenDecl:
				for _, s := range x.Specs {
					switch y := s.(type) {
					case *ast.TypeSpec:
						tr.types[y.Name.Name] = y.Type
					case *ast.ValueSpec:
						for i, n := range y.Names {
							d := &localDecl{name: n.Name, typ: y.Type, idx: -1}
							if y.Type == nil {
								if len(y.Values) == len(y.Names) {
									d.val = y.Values[i]
								} else if len(y.Values) == 1 {
									d.val, d.idx = y.Values[0], i
								}
							}
							if x.Tok == token.CONST && d.typ == nil && d.val == nil {
								d.typ = ast.NewIdent("int") // implicit repetition
							}
							tr.vars[n.Name] = d
						}
					}
				}
			}
		}
	}
	// fields of every struct type of the package, by field name
	for _, fn := range p.names {
		ast.Inspect(p.files[fn], func(n ast.Node) bool {
			if st, ok := n.(*ast.StructType); ok && st.Fields != nil {
				for _, f := range st.Fields.List {
					for _, nm := range f.Names {
						tr.fields[nm.Name] = append(tr.fields[nm.Name], f.Type)
					}
				}
			}
			return true
		})
	}
	return tr
}

func (tr *typeRes) addFields(fl *ast.FieldList, lo, hi token.Pos) {
	if fl == nil {
		return
	}
	for _, f := range fl.List {
		for _, n := range f.Names {
			tr.locals = append(tr.locals, localDecl{name: n.Name, declPos: lo, lo: lo, hi: hi, typ: f.Type, idx: -1})
		}
	}
}

// enter collects the local declarations of one top-level unit.
func (tr *typeRes) enter(u topUnit) {
	tr.locals = nil
	if u.fd != nil {
		lo, hi := u.fd.Body.Pos(), u.fd.Body.End()
		tr.addFields(u.fd.Recv, lo, hi)
		tr.addFields(u.fd.Type.Params, lo, hi)
		tr.addFields(u.fd.Type.Results, lo, hi)
	}
	var stack []ast.Node
	scopeOf := func() (token.Pos, token.Pos) {
		for i := len(stack) - 1; i >= 0; i-- {
			switch s := stack[i].(type) {
			case *ast.BlockStmt, *ast.CaseClause, *ast.CommClause, *ast.IfStmt, *ast.ForStmt, *ast.SwitchStmt, *ast.TypeSwitchStmt:
				return s.Pos(), s.End()
			}
		}
		return u.root.Pos(), u.root.End()
	}
	define := func(lhs []ast.Expr, rhs []ast.Expr, typ ast.Expr, after token.Pos) {
		lo, hi := scopeOf()
		for i, l := range lhs {
			id, ok := l.(*ast.Ident)
			if !ok || id.Name == "_" {
				continue
			}
			d := localDecl{name: id.Name, declPos: after, lo: lo, hi: hi, typ: typ, idx: -1}
			if typ == nil {
				if len(rhs) == len(lhs) {
					d.val = rhs[i]
				} else if len(rhs) == 1 {
					d.val, d.idx = rhs[0], i
				}
			}
			tr.locals = append(tr.locals, d)
		}
	}
	ast.Inspect(u.root, func(n ast.Node) bool {
		if n == nil {
			stack = stack[:len(stack)-1]
			return true
		}
		switch x := n.(type) {
		case *ast.FuncLit:
			lo, hi := x.Body.Pos(), x.Body.End()
			tr.addFields(x.Type.Params, lo, hi)
			tr.addFields(x.Type.Results, lo, hi)
		case *ast.AssignStmt:
			if x.Tok == token.DEFINE {
				if len(x.Rhs) == 1 {
					if ta, ok := unparen(x.Rhs[0]).(*ast.TypeAssertExpr); ok && ta.Type == nil {
						break // binding of a type switch: handled at the switch
					}
				}
				define(x.Lhs, x.Rhs, nil, x.End())
			}
		case *ast.DeclStmt:
			if gd, ok := x.Decl.(*ast.GenDecl); ok && (gd.Tok == token.VAR || gd.Tok == token.CONST) {
				for _, s := range gd.Specs {
					vs := s.(*ast.ValueSpec)
					lhs := make([]ast.Expr, len(vs.Names))
					for i, nm := range vs.Names {
						lhs[i] = nm
					}
					typ := vs.Type
					if typ == nil && len(vs.Values) == 0 {
						typ = ast.NewIdent("int")
					}
					define(lhs, vs.Values, typ, vs.End())
				}
			}
		case *ast.RangeStmt:
			if x.Tok == token.DEFINE {
				for i, e := range []ast.Expr{x.Key, x.Value} {
					if id, ok := e.(*ast.Ident); ok && id.Name != "_" {
						tr.locals = append(tr.locals, localDecl{name: id.Name, declPos: x.Body.Pos(), lo: x.Body.Pos(), hi: x.Body.End(), val: x.X, idx: -1, rng: i + 1})
					}
				}
			}
		case *ast.TypeSwitchStmt:
			if as, ok := x.Assign.(*ast.AssignStmt); ok && len(as.Lhs) == 1 && len(as.Rhs) == 1 {
				id, _ := as.Lhs[0].(*ast.Ident)
				ta, _ := unparen(as.Rhs[0]).(*ast.TypeAssertExpr)
				if id != nil && ta != nil {
					for _, c := range x.Body.List {
						cc := c.(*ast.CaseClause)
						d := localDecl{name: id.Name, declPos: cc.Pos(), lo: cc.Pos(), hi: cc.End(), idx: -1}
						if len(cc.List) == 1 && !isIdent(cc.List[0], "nil") {
							d.typ = cc.List[0]
						} else {
							d.val = ta.X
						}
						tr.locals = append(tr.locals, d)
					}
				}
			}
		}
		stack = append(stack, n)
		return true
	})
}

func (tr *typeRes) lookup(name string, pos token.Pos) *localDecl {
	var best *localDecl
	for i := range tr.locals {
		d := &tr.locals[i]
		if d.name != name || pos < d.lo || pos >= d.hi || d.declPos > pos {
			continue
		}
		if best == nil || d.lo > best.lo || (d.lo == best.lo && d.declPos > best.declPos) {
			best = d
		}
	}
	if best != nil {
		return best
	}
	return tr.vars[name]
}

var builtinTypes = map[string]bool{"bool": true, "string": true, "int": true, "int8": true, "int16": true, "int32": true, "int64": true,
	"uint": true, "uint8": true, "uint16": true, "uint32": true, "uint64": true, "uintptr": true, "byte": true, "rune": true,
	"float32": true, "float64": true, "complex64": true, "complex128": true, "error": true, "any": true}

// underlying resolves the named types of the package.
func (tr *typeRes) underlying(t ast.Expr) ast.Expr {
	for i := 0; i < 20 && t != nil; i++ {
		t = unparen(t)
		id, ok := t.(*ast.Ident)
		if !ok {
			return t
		}
		n, ok := tr.types[id.Name]
		if !ok {
			return t
		}
		t = n
	}
	return t
}

func isExternal(t ast.Expr, pkg string, names ...string) bool {
	if s, ok := t.(*ast.StarExpr); ok {
		t = s.X
	}
	sel, ok := t.(*ast.SelectorExpr)
	if !ok || !isIdent(sel.X, pkg) {
		return false
	}
	for _, n := range names {
		if sel.Sel.Name == n {
			return true
		}
	}
	return false
}

func external(pkg, name string, star bool) ast.Expr {
	var t ast.Expr = &ast.SelectorExpr{X: ast.NewIdent(pkg), Sel: ast.NewIdent(name)}
	if star {
		t = &ast.StarExpr{X: t}
	}
	return t
}

func nthResult(ft *ast.FuncType, idx int) ast.Expr {
	if ft == nil || ft.Results == nil {
		return nil
	}
	var ts []ast.Expr
	for _, f := range ft.Results.List {
		n := len(f.Names)
		if n == 0 {
			n = 1
		}
		for i := 0; i < n; i++ {
			ts = append(ts, f.Type)
		}
	}
	if idx < 0 {
		if len(ts) == 1 {
			return ts[0]
		}
		return nil
	}
	if idx < len(ts) {
		return ts[idx]
	}
	return nil
}

const (
	tcUnknown = iota
	tcChan
	tcNotChan
)

// classify says whether a type is a channel type, certainly is not, or cannot
// be told syntactically.
func (tr *typeRes) classify(t ast.Expr) int {
	if t == nil {
		return tcUnknown
	}
	switch u := tr.underlying(t).(type) {
	case *ast.ChanType:
		return tcChan
	case *ast.ArrayType, *ast.MapType, *ast.Ellipsis, *ast.StarExpr, *ast.FuncType, *ast.InterfaceType, *ast.StructType:
		return tcNotChan
	case *ast.Ident:
		if builtinTypes[u.Name] {
			return tcNotChan
		}
	}
	return tcUnknown
}

// agree returns the first of the candidate types when all of them classify
// alike and none is unknown.
func (tr *typeRes) agree(ts []ast.Expr) ast.Expr {
	if len(ts) == 0 {
		return nil
	}
	c := tr.classify(ts[0])
	if c == tcUnknown {
		return nil
	}
	for _, t := range ts[1:] {
		if tr.classify(t) != c {
			return nil
		}
	}
	return ts[0]
}

func (tr *typeRes) declType(d *localDecl, depth int) ast.Expr {
	if d.typ != nil {
		return d.typ
	}
	if d.val == nil {
		return nil
	}
	if d.rng != 0 {
		switch u := tr.underlying(tr.typeOf(d.val, -1, depth+1)).(type) {
		case *ast.ArrayType:
			if d.rng == 1 {
				return ast.NewIdent("int")
			}
			return u.Elt
		case *ast.Ellipsis:
			if d.rng == 1 {
				return ast.NewIdent("int")
			}
			return u.Elt
		case *ast.MapType:
			if d.rng == 1 {
				return u.Key
			}
			return u.Value
		case *ast.ChanType:
			if d.rng == 1 {
				return u.Value
			}
		case *ast.Ident:
			if u.Name == "string" || u.Name == "int" {
				return ast.NewIdent("int")
			}
		}
		return nil
	}
	return tr.typeOf(d.val, d.idx, depth+1)
}

// typeOf infers the type expression of e (its idx-th value when idx >= 0);
// nil when it cannot be told.  Identifiers are resolved at e's own position.
func (tr *typeRes) typeOf(e ast.Expr, idx int, depth int) ast.Expr {
	if e == nil || depth > 30 {
		return nil
	}
	e = unparen(e)
	if idx > 0 {
		switch e.(type) {
		case *ast.CallExpr:
		case *ast.TypeAssertExpr, *ast.IndexExpr, *ast.UnaryExpr:
			return ast.NewIdent("bool") // the `ok` of a comma-ok form
		default:
			return nil
		}
	}
	switch x := e.(type) {
	case *ast.Ident:
		switch x.Name {
		case "true", "false":
			return ast.NewIdent("bool")
		case "nil":
			return nil
		}
		if d := tr.lookup(x.Name, x.Pos()); d != nil {
			return tr.declType(d, depth)
		}
	case *ast.BasicLit:
		if x.Kind == token.STRING {
			return ast.NewIdent("string")
		}
		return ast.NewIdent("int")
	case *ast.CompositeLit:
		return x.Type
	case *ast.FuncLit:
		return x.Type
	case *ast.UnaryExpr:
		switch x.Op {
		case token.AND:
			return &ast.StarExpr{X: tr.typeOf(x.X, -1, depth+1)}
		case token.NOT:
			return ast.NewIdent("bool")
		case token.ARROW:
			if ct, ok := tr.underlying(tr.typeOf(x.X, -1, depth+1)).(*ast.ChanType); ok {
				return ct.Value
			}
			return nil
		}
		return tr.typeOf(x.X, -1, depth+1)
	case *ast.BinaryExpr:
		switch x.Op {
		case token.EQL, token.NEQ, token.LSS, token.LEQ, token.GTR, token.GEQ, token.LAND, token.LOR:
			return ast.NewIdent("bool")
		case token.SHL, token.SHR:
			return tr.typeOf(x.X, -1, depth+1)
		}
		if t := tr.typeOf(x.X, -1, depth+1); t != nil {
			return t
		}
		return tr.typeOf(x.Y, -1, depth+1)
	case *ast.StarExpr:
		if s, ok := tr.underlying(tr.typeOf(x.X, -1, depth+1)).(*ast.StarExpr); ok {
			return s.X
		}
	case *ast.TypeAssertExpr:
		return x.Type
	case *ast.SliceExpr:
		t := tr.typeOf(x.X, -1, depth+1)
		if a, ok := tr.underlying(t).(*ast.ArrayType); ok && a.Len != nil {
			return &ast.ArrayType{Elt: a.Elt}
		}
		return t
	case *ast.IndexExpr:
		u := tr.underlying(tr.typeOf(x.X, -1, depth+1))
		if s, ok := u.(*ast.StarExpr); ok {
			u = tr.underlying(s.X)
		}
		switch y := u.(type) {
		case *ast.ArrayType:
			return y.Elt
		case *ast.Ellipsis:
			return y.Elt
		case *ast.MapType:
			return y.Value
		case *ast.Ident:
			if y.Name == "string" {
				return ast.NewIdent("byte")
			}
		}
	case *ast.SelectorExpr:
		if id, ok := x.X.(*ast.Ident); ok && tr.lookup(id.Name, id.Pos()) == nil && tr.imports[id.Name] {
			return nil // a name of another package
		}
		xt := tr.typeOf(x.X, -1, depth+1)
		if isExternal(xt, "time", "Timer", "Ticker") && x.Sel.Name == "C" {
			return &ast.ChanType{Dir: ast.RECV, Value: external("time", "Time", false)}
		}
		u := tr.underlying(xt)
		if s, ok := u.(*ast.StarExpr); ok {
			u = tr.underlying(s.X)
		}
		if st, ok := u.(*ast.StructType); ok && st.Fields != nil {
			for _, f := range st.Fields.List {
				for _, n := range f.Names {
					if n.Name == x.Sel.Name {
						return f.Type
					}
				}
			}
		}
		return tr.agree(tr.fields[x.Sel.Name])
	case *ast.CallExpr:
		return tr.callType(x, idx, depth)
	}
	return nil
}

func (tr *typeRes) callType(c *ast.CallExpr, idx int, depth int) ast.Expr {
	switch f := unparen(c.Fun).(type) {
	case *ast.ArrayType, *ast.MapType, *ast.ChanType, *ast.FuncType, *ast.InterfaceType, *ast.StarExpr:
		return f // conversion
	case *ast.FuncLit:
		return nthResult(f.Type, idx)
	case *ast.Ident:
		if tr.lookup(f.Name, f.Pos()) == nil {
			switch f.Name {
			case "make":
				if len(c.Args) > 0 {
					return c.Args[0]
				}
				return nil
			case "new":
				if len(c.Args) > 0 {
					return &ast.StarExpr{X: c.Args[0]}
				}
				return nil
			case "len", "cap", "copy":
				return ast.NewIdent("int")
			case "append", "min", "max":
				if len(c.Args) > 0 {
					return tr.typeOf(c.Args[0], -1, depth+1)
				}
				return nil
			case "recover":
				return &ast.InterfaceType{Methods: &ast.FieldList{}}
			}
			if builtinTypes[f.Name] {
				return f
			}
			if _, ok := tr.types[f.Name]; ok {
				return f // conversion
			}
			if fd, ok := tr.funcs[f.Name]; ok {
				return nthResult(fd.Type, idx)
			}
			return nil
		}
		if ft, ok := tr.underlying(tr.typeOf(f, -1, depth+1)).(*ast.FuncType); ok {
			return nthResult(ft, idx)
		}
	case *ast.SelectorExpr:
		if isIdent(f.X, "time") && tr.lookup("time", f.Pos()) == nil {
			switch f.Sel.Name {
			case "After", "Tick":
				return &ast.ChanType{Dir: ast.RECV, Value: external("time", "Time", false)}
			case "NewTimer", "AfterFunc":
				return external("time", "Timer", true)
			case "NewTicker":
				return external("time", "Ticker", true)
			}
			return nil
		}
		if isIdent(f.X, "strings") && tr.lookup("strings", f.Pos()) == nil && tr.imports["strings"] {
			// the standard library's signatures (fixed by the Go 1 compatibility promise)
			switch f.Sel.Name {
			case "Split", "SplitN", "SplitAfter", "SplitAfterN", "Fields":
				return &ast.ArrayType{Elt: ast.NewIdent("string")}
			case "Join", "Repeat", "TrimSpace", "TrimRight", "TrimLeft", "Trim", "TrimPrefix", "TrimSuffix", "ToLower", "ToUpper", "Replace", "ReplaceAll":
				return ast.NewIdent("string")
			}
			return nil
		}
		if id, ok := f.X.(*ast.Ident); ok && tr.lookup(id.Name, id.Pos()) == nil && tr.imports[id.Name] {
			return nil // a function of another package
		}
		if f.Sel.Name == "Done" && len(c.Args) == 0 {
			// context.Context.Done (the only Done() of this code base)
			if len(tr.methods["Done"]) == 0 {
				return &ast.ChanType{Dir: ast.RECV, Value: &ast.StructType{Fields: &ast.FieldList{}}}
			}
		}
		var cands []ast.Expr
		for _, m := range tr.methods[f.Sel.Name] {
			cands = append(cands, nthResult(m.Type, idx))
		}
		for _, ft := range tr.fields[f.Sel.Name] {
			if fn, ok := tr.underlying(ft).(*ast.FuncType); ok {
				cands = append(cands, nthResult(fn, idx))
			}
		}
		// methods of the interfaces of the package
		for _, t := range tr.types {
			if it, ok := t.(*ast.InterfaceType); ok && it.Methods != nil {
				for _, m := range it.Methods.List {
					for _, n := range m.Names {
						if fn, ok := m.Type.(*ast.FuncType); ok && n.Name == f.Sel.Name {
							cands = append(cands, nthResult(fn, idx))
						}
					}
				}
			}
		}
		return tr.agree(cands)
	}
	return nil
}

// maybeProgram: e is a (pointer to a) Program, or its type cannot be told.
func (tr *typeRes) maybeProgram(e ast.Expr) bool {
	t := tr.typeOf(e, -1, 0)
	if t == nil {
		return true
	}
	if s, ok := unparen(t).(*ast.StarExpr); ok {
		t = s.X
		if t == nil {
			return true
		}
	}
	return isIdent(t, "Program")
}

// ---- the generator

type chanOut struct {
	ops, makes, gos, defers, sends []string
	ord                            map[string]int
	uns                            []string
}

var dirNames = map[int]string{0: "CSend", 1: "CRecv", 2: "CClose", 3: "CRange"}

func (o *chanOut) op(p *pkgInfo, fn, ch string, dir int, alts []string) {
	o.ops = append(o.ops, fmt.Sprintf("mk_chanop %s %s %s %s %d", coqString(fn), coqString(ch), dirNames[dir], coqStringList(alts), o.ord[fn]))
	o.ord[fn]++
}

// commOf describes the communication of a select clause: its text as an
// alternative ("default", or the channel expression) and the node of the
// operation itself.
func (p *pkgInfo) commOf(cc *ast.CommClause) (string, ast.Node, bool) {
	switch s := cc.Comm.(type) {
	case nil:
		return "default", nil, true
	case *ast.SendStmt:
		return p.chanText(s.Chan), s, true
	case *ast.ExprStmt:
		if ch, u := recvExpr(s.X); u != nil {
			return p.chanText(ch), u, true
		}
	case *ast.AssignStmt:
		if len(s.Rhs) == 1 {
			if ch, u := recvExpr(s.Rhs[0]); u != nil {
				return p.chanText(ch), u, true
			}
		}
	}
	return "", nil, false
}

// receiverNameOf: the conventional receiver name of the methods of a type.
func (p *pkgInfo) receiverNameOf(typ string) string {
	for _, fn := range p.names {
		for _, d := range p.files[fn].Decls {
			if fd, ok := d.(*ast.FuncDecl); ok && recvTypeName(fd) == typ && len(fd.Recv.List[0].Names) == 1 {
				if n := fd.Recv.List[0].Names[0].Name; n != "_" {
					return n
				}
			}
		}
	}
	return ""
}

// makeTarget: the variable or field a make(chan) is stored in.
func (p *pkgInfo) makeTarget(call *ast.CallExpr, stack []ast.Node) (string, bool) {
	i := len(stack) - 1
	for i >= 0 {
		if _, ok := stack[i].(*ast.ParenExpr); !ok {
			break
		}
		i--
	}
	if i < 0 {
		return "", false
	}
	is := func(e ast.Expr) bool { return unparen(e) == ast.Expr(call) }
	switch par := stack[i].(type) {
	case *ast.AssignStmt:
		if len(par.Lhs) == len(par.Rhs) {
			for j, r := range par.Rhs {
				if is(r) {
					return p.text(par.Lhs[j]), true
				}
			}
		}
	case *ast.ValueSpec:
		if len(par.Names) == len(par.Values) {
			for j, r := range par.Values {
				if is(r) {
					return par.Names[j].Name, true
				}
			}
		}
	case *ast.KeyValueExpr:
		if !is(par.Value) || i == 0 {
			return "", false
		}
		lit, ok := stack[i-1].(*ast.CompositeLit)
		if !ok {
			return "", false
		}
		field := p.text(par.Key)
		// what is the literal stored in?
		j := i - 2
		var inner ast.Expr = lit
		for j >= 0 {
			switch up := stack[j].(type) {
			case *ast.ParenExpr:
				inner = up
				j--
				continue
			case *ast.UnaryExpr:
				if up.Op == token.AND {
					inner = up
					j--
					continue
				}
			case *ast.AssignStmt:
				if len(up.Lhs) == len(up.Rhs) {
					for k, r := range up.Rhs {
						if r == inner {
							return p.text(up.Lhs[k]) + "." + field, true
						}
					}
				}
			case *ast.ValueSpec:
				if len(up.Names) == len(up.Values) {
					for k, r := range up.Values {
						if r == inner {
							return up.Names[k].Name + "." + field, true
						}
					}
				}
			}
			break
		}
		if lit.Type != nil {
			t := p.text(lit.Type)
			if r := p.receiverNameOf(t); r != "" {
				return r + "." + field, true
			}
			return t + "." + field, true
		}
	}
	return "", false
}

func genChanOps(p *pkgInfo) (string, error) {
	tr := newTypeRes(p)
	o := &chanOut{ord: map[string]int{}}
	for _, u := range p.topUnits() {
		u := u
		tr.enter(u)
		alts := map[ast.Node][]string{}
		var stack []ast.Node
		ast.Inspect(u.root, func(n ast.Node) bool {
			if n == nil {
				stack = stack[:len(stack)-1]
				return true
			}
			switch x := n.(type) {
			case *ast.SelectStmt:
				var texts []string
				var nodes []ast.Node
				for _, c := range x.Body.List {
					t, nd, ok := p.commOf(c.(*ast.CommClause))
					if !ok {
						o.uns = append(o.uns, u.name+": select communication "+p.text(c.(*ast.CommClause).Comm))
						t = p.text(c.(*ast.CommClause).Comm)
					}
					texts, nodes = append(texts, t), append(nodes, nd)
				}
				for i, nd := range nodes {
					if nd == nil {
						continue
					}
					others := []string{}
					for j, t := range texts {
						if j != i {
							others = append(others, t)
						}
					}
					alts[nd] = others
				}
			case *ast.SendStmt:
				o.op(p, u.name, p.chanText(x.Chan), 0, alts[n])
			case *ast.UnaryExpr:
				if x.Op == token.ARROW {
					o.op(p, u.name, p.chanText(x.X), 1, alts[n])
				}
			case *ast.RangeStmt:
				switch tr.classify(tr.typeOf(x.X, -1, 0)) {
				case tcChan:
					o.op(p, u.name, p.chanText(x.X), 3, nil)
				case tcUnknown:
					o.uns = append(o.uns, u.name+": cannot tell whether the operand of `range "+p.text(x.X)+"` is a channel")
				}
			case *ast.GoStmt:
				o.gos = append(o.gos, coqPair(u.name, p.calleeText(x.Call)))
			case *ast.DeferStmt:
				o.defers = append(o.defers, coqPair(u.name, p.deferText(x)))
			case *ast.CallExpr:
				switch {
				case isIdent(x.Fun, "close") && len(x.Args) == 1 && tr.lookup("close", x.Pos()) == nil:
					o.op(p, u.name, p.chanText(x.Args[0]), 2, nil)
				case isIdent(x.Fun, "make") && len(x.Args) >= 1 && tr.lookup("make", x.Pos()) == nil && tr.classify(x.Args[0]) == tcChan:
					size := 0
					if len(x.Args) >= 2 {
						size = 999
						if bl, ok := unparen(x.Args[1]).(*ast.BasicLit); ok && bl.Kind == token.INT {
							if v, err := strconv.ParseInt(strings.ReplaceAll(bl.Value, "_", ""), 0, 32); err == nil && v >= 0 {
								size = int(v)
							}
						}
					}
					target, ok := p.makeTarget(x, stack)
					if !ok {
						o.uns = append(o.uns, u.name+": "+p.text(x)+" is not stored in a variable or field")
					}
					o.makes = append(o.makes, fmt.Sprintf("(%s, %s, %d)", coqString(u.name), coqString(target), size))
				case isSendCall(x) && tr.maybeProgram(unparen(x.Fun).(*ast.SelectorExpr).X):
					o.sends = append(o.sends, coqPair(u.name, p.sendArg(x.Args[0])))
				}
			}
			stack = append(stack, n)
			return true
		})
	}
	var b strings.Builder
	b.WriteString("From Coq Require Import String List.\nImport ListNotations.\nOpen Scope string_scope.\nFrom BT Require Import Model.GenTypes.\n\n")
	b.WriteString("(* every channel operation: enclosing top-level function, channel, direction, the other cases of its select, ordinal *)\n")
	fmt.Fprintf(&b, "Definition chanops : list chanop := %s.\n\n", coqLines(o.ops))
	b.WriteString("(* make(chan T[, n]): enclosing function, variable or field, buffer size (999: not a literal) *)\n")
	fmt.Fprintf(&b, "Definition make_chans : list (string * string * nat) := %s.\n\n", coqLines(o.makes))
	b.WriteString("(* go statements: enclosing function, callee *)\n")
	fmt.Fprintf(&b, "Definition go_stmts : list (string * string) := %s.\n\n", coqLines(o.gos))
	b.WriteString("(* defer statements: enclosing function, normalised text *)\n")
	fmt.Fprintf(&b, "Definition defers : list (string * string) := %s.\n\n", coqLines(o.defers))
	b.WriteString("(* calls of Program.Send: enclosing function, argument *)\n")
	fmt.Fprintf(&b, "Definition send_calls : list (string * string) := %s.\n\n", coqLines(o.sends))
	fmt.Fprintf(&b, "Definition unsupported : list string := %s.\n", coqStringList(o.uns))
	return b.String(), nil
}
