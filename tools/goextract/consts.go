package main

import (
	"fmt"
	"go/ast"
	"go/token"
	"sort"
	"strconv"
	"strings"
)

// A small evaluator for integer constant declarations (iota, negation,
// aliases, implicit repetition).  Package-level consts of all files, plus
// function-local const blocks on request.

type constEnv map[string]int64

func evalInt(e ast.Expr, env constEnv, iota int64) (int64, bool) {
	switch x := e.(type) {
	case *ast.BasicLit:
		switch x.Kind {
		case token.INT:
			v, err := strconv.ParseInt(strings.ReplaceAll(x.Value, "_", ""), 0, 64)
			return v, err == nil
		case token.CHAR:
			r, _, _, err := strconv.UnquoteChar(x.Value[1:len(x.Value)-1], '\'')
			return int64(r), err == nil
		}
	case *ast.Ident:
		if x.Name == "iota" {
			return iota, true
		}
		v, ok := env[x.Name]
		return v, ok
	case *ast.ParenExpr:
		return evalInt(x.X, env, iota)
	case *ast.UnaryExpr:
		v, ok := evalInt(x.X, env, iota)
		if !ok {
			return 0, false
		}
		switch x.Op {
		case token.SUB:
			return -v, true
		case token.ADD:
			return v, true
		case token.XOR:
			return ^v, true
		}
	case *ast.BinaryExpr:
		a, ok1 := evalInt(x.X, env, iota)
		b, ok2 := evalInt(x.Y, env, iota)
		if !ok1 || !ok2 {
			return 0, false
		}
		switch x.Op {
		case token.ADD:
			return a + b, true
		case token.SUB:
			return a - b, true
		case token.MUL:
			return a * b, true
		case token.QUO:
			if b != 0 {
				return a / b, true
			}
		case token.SHL:
			return a << uint(b), true
		case token.SHR:
			return a >> uint(b), true
		case token.AND:
			return a & b, true
		case token.OR:
			return a | b, true
		}
	case *ast.CallExpr: // conversion T(x)
		if len(x.Args) == 1 {
			return evalInt(x.Args[0], env, iota)
		}
	case *ast.SelectorExpr:
		if id, ok := x.X.(*ast.Ident); ok && id.Name == "time" {
			if v, ok := durConsts[x.Sel.Name]; ok {
				n, _ := strconv.ParseInt(v, 10, 64)
				return n, true
			}
		}
	}
	return 0, false
}

func evalConstDecl(gd *ast.GenDecl, env constEnv) {
	if gd.Tok != token.CONST {
		return
	}
	var last []ast.Expr
	for i, s := range gd.Specs {
		vs := s.(*ast.ValueSpec)
		vals := vs.Values
		if len(vals) == 0 {
			vals = last
		} else {
			last = vals
		}
		for j, n := range vs.Names {
			if j < len(vals) {
				if v, ok := evalInt(vals[j], env, int64(i)); ok {
					env[n.Name] = v
				}
			}
		}
	}
}

func packageConsts(p *pkgInfo) constEnv {
	env := constEnv{}
	// two passes so that aliases declared before their targets resolve
	for pass := 0; pass < 2; pass++ {
		for _, fn := range p.names {
			for _, d := range p.files[fn].Decls {
				if gd, ok := d.(*ast.GenDecl); ok {
					evalConstDecl(gd, env)
				}
			}
		}
	}
	return env
}

func localConsts(fd *ast.FuncDecl, env constEnv) constEnv {
	out := constEnv{}
	for k, v := range env {
		out[k] = v
	}
	if fd == nil || fd.Body == nil {
		return out
	}
	ast.Inspect(fd.Body, func(n ast.Node) bool {
		if ds, ok := n.(*ast.DeclStmt); ok {
			if gd, ok := ds.Decl.(*ast.GenDecl); ok {
				evalConstDecl(gd, out)
			}
		}
		return true
	})
	return out
}

func bytesList(s string) string {
	parts := make([]string, len(s))
	for i := 0; i < len(s); i++ {
		parts[i] = strconv.Itoa(int(s[i]))
	}
	return "[" + strings.Join(parts, ";") + "]"
}

// ---- KeyTable

func genKeyTable(p *pkgInfo) (string, error) {
	env := packageConsts(p)
	var uns []string
	type ent struct {
		seq string
		ty  int64
		alt bool
	}
	var ents []ent
	found := false
	for _, fn := range p.names {
		for _, d := range p.files[fn].Decls {
			gd, ok := d.(*ast.GenDecl)
			if !ok || gd.Tok != token.VAR {
				continue
			}
			for _, s := range gd.Specs {
				vs := s.(*ast.ValueSpec)
				if len(vs.Names) != 1 || vs.Names[0].Name != "sequences" || len(vs.Values) != 1 {
					continue
				}
				cl, ok := vs.Values[0].(*ast.CompositeLit)
				if !ok {
					uns = append(uns, "sequences: not a composite literal")
					continue
				}
				found = true
				for _, el := range cl.Elts {
					kv, ok := el.(*ast.KeyValueExpr)
					if !ok {
						uns = append(uns, "sequences: element "+p.src(el))
						continue
					}
					kl, ok := kv.Key.(*ast.BasicLit)
					if !ok || kl.Kind != token.STRING {
						uns = append(uns, "sequences: key "+p.src(kv.Key))
						continue
					}
					seq, err := strconv.Unquote(kl.Value)
					if err != nil {
						uns = append(uns, "sequences: key "+kl.Value)
						continue
					}
					vl, ok := kv.Value.(*ast.CompositeLit)
					if !ok {
						uns = append(uns, "sequences: value "+p.src(kv.Value))
						continue
					}
					e := ent{seq: seq}
					tyOK := false
					for _, f := range vl.Elts {
						fkv, ok := f.(*ast.KeyValueExpr)
						if !ok {
							uns = append(uns, "sequences: field "+p.src(f))
							continue
						}
						name := p.src(fkv.Key)
						switch name {
						case "Type":
							if v, ok := evalInt(fkv.Value, env, 0); ok {
								e.ty, tyOK = v, true
							}
						case "Alt":
							e.alt = p.src(fkv.Value) == "true"
							if s := p.src(fkv.Value); s != "true" && s != "false" {
								uns = append(uns, "sequences: Alt value "+s)
							}
						default:
							uns = append(uns, "sequences: field "+name+" in entry "+kl.Value)
						}
					}
					if !tyOK {
						uns = append(uns, "sequences: no constant Type in entry "+kl.Value)
					}
					ents = append(ents, e)
				}
			}
		}
	}
	if !found {
		uns = append(uns, "sequences: declaration not found")
	}
	sort.SliceStable(ents, func(i, j int) bool { return ents[i].seq < ents[j].seq })
	var b strings.Builder
	b.WriteString("From Coq Require Import NArith ZArith String List.\nImport ListNotations.\nOpen Scope string_scope.\n\n")
	b.WriteString("(* key.go: var sequences = map[string]Key{...}  — (bytes, (KeyType, Alt)), sorted by bytes *)\n")
	b.WriteString("Definition sequences : list (list N * (Z * bool)) := [\n")
	for i, e := range ents {
		sep := ";"
		if i == len(ents)-1 {
			sep = ""
		}
		fmt.Fprintf(&b, "  (%s%%N, ((%d)%%Z, %s))%s\n", bytesList(e.seq), e.ty, coqBool(e.alt), sep)
	}
	b.WriteString("].\n\n")
	// the constants extSequences is built from
	for _, n := range []string{"keyNUL", "keyESC", "keyUS", "keyDEL", "KeyRunes", "KeySpace", "KeyEscape"} {
		v, ok := env[n]
		if !ok {
			uns = append(uns, "constant "+n+" not found")
		}
		fmt.Fprintf(&b, "Definition c_%s : Z := (%d)%%Z.\n", n, v)
	}
	fmt.Fprintf(&b, "\nDefinition unsupported : list string := %s.\n", coqStringList(uns))
	return b.String(), nil
}

// ---- Consts

func findStringConst(p *pkgInfo, fnName, name string) (string, bool) {
	var res string
	ok := false
	visit := func(n ast.Node) bool {
		if gd, isGd := n.(*ast.GenDecl); isGd && (gd.Tok == token.CONST || gd.Tok == token.VAR) {
			for _, s := range gd.Specs {
				vs := s.(*ast.ValueSpec)
				for i, nm := range vs.Names {
					if nm.Name == name && i < len(vs.Values) {
						if bl, isBl := vs.Values[i].(*ast.BasicLit); isBl && bl.Kind == token.STRING {
							if s, err := strconv.Unquote(bl.Value); err == nil {
								res, ok = s, true
							}
						}
					}
				}
			}
		}
		return true
	}
	if fd := p.funcDecl("", fnName); fd != nil {
		ast.Inspect(fd, visit)
	}
	return res, ok
}

// regexp.MustCompile(`...`) assigned to a package variable
func findRegex(p *pkgInfo, name string) (string, bool) {
	for _, fn := range p.names {
		for _, d := range p.files[fn].Decls {
			gd, ok := d.(*ast.GenDecl)
			if !ok || gd.Tok != token.VAR {
				continue
			}
			for _, s := range gd.Specs {
				vs := s.(*ast.ValueSpec)
				for i, nm := range vs.Names {
					if nm.Name != name || i >= len(vs.Values) {
						continue
					}
					if c, ok := vs.Values[i].(*ast.CallExpr); ok && len(c.Args) == 1 && strings.HasSuffix(p.src(c.Fun), "MustCompile") {
						if bl, ok := c.Args[0].(*ast.BasicLit); ok && bl.Kind == token.STRING {
							if s, err := strconv.Unquote(bl.Value); err == nil {
								return s, true
							}
						}
					}
				}
			}
		}
	}
	return "", false
}

func genConsts(p *pkgInfo) (string, error) {
	env := packageConsts(p)
	var uns []string
	var b strings.Builder
	b.WriteString("From Coq Require Import NArith ZArith String List.\nImport ListNotations.\nOpen Scope string_scope.\n\n")
	emitZ := func(coq string, v int64, ok bool, what string) {
		if !ok {
			uns = append(uns, what+" not found")
		}
		fmt.Fprintf(&b, "Definition %s : Z := (%d)%%Z.\n", coq, v)
	}
	// read buffer size: `var buf [N]byte` in readAnsiInputs
	var bufSize int64
	bufOK := false
	if fd := p.funcDecl("", "readAnsiInputs"); fd != nil {
		ast.Inspect(fd, func(n ast.Node) bool {
			if vs, ok := n.(*ast.ValueSpec); ok && len(vs.Names) == 1 && vs.Names[0].Name == "buf" {
				if at, ok := vs.Type.(*ast.ArrayType); ok && at.Len != nil {
					if v, ok := evalInt(at.Len, env, 0); ok {
						bufSize, bufOK = v, true
					}
				}
			}
			return true
		})
	}
	emitZ("read_buf_size", bufSize, bufOK, "readAnsiInputs buf size")
	for _, n := range []string{"x10MouseByteOffset", "defaultFPS", "maxFPS"} {
		v, ok := env[n]
		emitZ("c_"+n, v, ok, n)
	}
	pm := localConsts(p.funcDecl("", "parseMouseButton"), env)
	for _, n := range []string{"bitShift", "bitAlt", "bitCtrl", "bitMotion", "bitWheel", "bitAdd", "bitsMask"} {
		v, ok := pm[n]
		emitZ("c_"+n, v, ok, "parseMouseButton."+n)
	}
	dm := localConsts(p.funcDecl("", "detectOneMsg"), env)
	{
		v, ok := dm["mouseEventX10Len"]
		emitZ("c_mouseEventX10Len", v, ok, "detectOneMsg.mouseEventX10Len")
	}
	for _, n := range []string{"MouseActionPress", "MouseActionRelease", "MouseActionMotion",
		"MouseButtonNone", "MouseButtonLeft", "MouseButtonMiddle", "MouseButtonRight", "MouseButtonWheelUp", "MouseButtonWheelDown",
		"MouseButtonWheelLeft", "MouseButtonWheelRight", "MouseButtonBackward", "MouseButtonForward", "MouseButton10", "MouseButton11",
		"MouseUnknown", "MouseLeft", "MouseRight", "MouseMiddle", "MouseRelease", "MouseWheelUp", "MouseWheelDown", "MouseWheelLeft",
		"MouseWheelRight", "MouseBackward", "MouseForward", "MouseMotion"} {
		v, ok := env[n]
		emitZ("c_"+n, v, ok, n)
	}
	for _, r := range []string{"unknownCSIRe", "mouseSGRRegex", "incompleteCSIRe"} {
		s, ok := findRegex(p, r)
		if !ok {
			uns = append(uns, "regexp "+r+" not found")
		}
		fmt.Fprintf(&b, "Definition re_%s : list N := %s%%N.\n", r, bytesList(s))
	}
	for _, sc := range [][2]string{{"detectBracketedPaste", "bpStart"}, {"detectBracketedPaste", "bpEnd"}} {
		s, ok := findStringConst(p, sc[0], sc[1])
		if !ok {
			uns = append(uns, sc[0]+"."+sc[1]+" not found")
		}
		fmt.Fprintf(&b, "Definition s_%s : list N := %s%%N.\n", sc[1], bytesList(s))
	}
	// waitForReadLoop timeout
	var wt int64
	wtOK := false
	if fd := p.funcDecl("Program", "waitForReadLoop"); fd != nil {
		ast.Inspect(fd, func(n ast.Node) bool {
			if c, ok := n.(*ast.CallExpr); ok && p.src(c.Fun) == "time.After" && len(c.Args) == 1 {
				if v, ok := evalInt(c.Args[0], env, 0); ok {
					wt, wtOK = v, true
				}
			}
			return true
		})
	}
	emitZ("read_loop_wait_ns", wt, wtOK, "waitForReadLoop timeout")
	fmt.Fprintf(&b, "\nDefinition unsupported : list string := %s.\n", coqStringList(uns))
	return b.String(), nil
}
