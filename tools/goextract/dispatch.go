package main

import (
	"fmt"
	"go/ast"
	"go/token"
	"strings"
)

// Dispatch: the shape of Program.eventLoop:
//
//	for { select { ...; case msg := <-p.msgs: PRE; switch msg := msg.(type) {...}; POST } }

type dispatchGen struct {
	p      *pkgInfo
	msgVar string // the variable the message is received in
	swVar  string // the variable bound by the type switch ("" if none)
	uns    []string
}

func truncate(s string, n int) string {
	r := []rune(s)
	if len(r) > n {
		return string(r[:n])
	}
	return s
}

// isCtxDone recognises `<-ctx.Done()` / `<-p.ctx.Done()` as the communication
// of a select clause.
func (p *pkgInfo) isCtxDoneComm(cc *ast.CommClause) bool {
	es, ok := cc.Comm.(*ast.ExprStmt)
	if !ok {
		return false
	}
	ch, _ := recvExpr(es.X)
	if ch == nil {
		return false
	}
	c, ok := unparen(ch).(*ast.CallExpr)
	if !ok || len(c.Args) != 0 {
		return false
	}
	sel, ok := unparen(c.Fun).(*ast.SelectorExpr)
	if !ok || sel.Sel.Name != "Done" {
		return false
	}
	x := p.text(sel.X)
	return x == "ctx" || strings.HasSuffix(x, ".ctx")
}

// conjuncts splits a condition along &&.
func conjuncts(e ast.Expr) []ast.Expr {
	e = unparen(e)
	if b, ok := e.(*ast.BinaryExpr); ok && b.Op == token.LAND {
		return append(conjuncts(b.X), conjuncts(b.Y)...)
	}
	return []ast.Expr{e}
}

// dispatchCond classifies the condition of an `if` inside a dispatch case.
func (g *dispatchGen) dispatchCond(s *ast.IfStmt) string {
	if s.Init == nil && isIdent(s.Cond, "suspendSupported") {
		return "suspendSupported"
	}
	if s.Init == nil {
		// `runtime.GOOS == "windows"` must be one of the conjuncts: any other
		// mention of runtime.GOOS (!=, ||, ...) says nothing we can use.
		for _, c := range conjuncts(s.Cond) {
			if b, ok := c.(*ast.BinaryExpr); ok && b.Op == token.EQL {
				x, y := g.p.text(b.X), g.p.text(b.Y)
				if (x == "runtime.GOOS" && y == `"windows"`) || (y == "runtime.GOOS" && x == `"windows"`) {
					return "windows"
				}
			}
		}
	}
	return "other"
}

// joinCond conjoins two (normalised) conditions; a part with a top-level `||`
// or `;` is parenthesised.
func joinCond(a, b string) string {
	switch {
	case a == "":
		return b
	case b == "":
		return a
	}
	wrap := func(s string) string {
		depth := 0
		for i := 0; i < len(s); i++ {
			switch {
			case s[i] == '(' || s[i] == '[' || s[i] == '{':
				depth++
			case s[i] == ')' || s[i] == ']' || s[i] == '}':
				depth--
			case depth == 0 && (s[i] == ';' || strings.HasPrefix(s[i:], "||")):
				return "(" + s + ")"
			}
		}
		return s
	}
	return wrap(a) + " && " + wrap(b)
}

var builtinFuncs = map[string]bool{"make": true, "new": true, "len": true, "cap": true, "append": true, "copy": true,
	"delete": true, "min": true, "max": true, "complex": true, "real": true, "imag": true}

// isConversionOrBuiltin: T(x) for a builtin or package type, []T(x), len(x)...
func (p *pkgInfo) isConversionOrBuiltin(c *ast.CallExpr) bool {
	switch f := unparen(c.Fun).(type) {
	case *ast.ArrayType, *ast.MapType, *ast.ChanType, *ast.FuncType, *ast.InterfaceType, *ast.StarExpr:
		return true
	case *ast.Ident:
		if builtinTypes[f.Name] || builtinFuncs[f.Name] {
			return true
		}
		for _, fn := range p.names {
			for _, d := range p.files[fn].Decls {
				if gd, ok := d.(*ast.GenDecl); ok && gd.Tok == token.TYPE {
					for _, s := range gd.Specs {
						if s.(*ast.TypeSpec).Name.Name == f.Name {
							return true
						}
					}
				}
			}
		}
	}
	return false
}

type dcalls struct {
	g     *dispatchGen
	tag   string
	calls [][2]string
}

// exprCalls records the calls of an expression in source order; function
// literals are not entered, conversions and builtins are not calls.
func (d *dcalls) exprCalls(e ast.Node, cond string) {
	if e == nil {
		return
	}
	ast.Inspect(e, func(n ast.Node) bool {
		switch x := n.(type) {
		case *ast.FuncLit:
			return false
		case *ast.CallExpr:
			if !d.g.p.isConversionOrBuiltin(x) {
				d.calls = append(d.calls, [2]string{cond, d.g.p.calleeText(x)})
			}
		}
		return true
	})
}

// stmts walks the body of a dispatch case.  top: list is the body of the
// clause itself (so its final statement ends the clause); inner: number of
// enclosing for/switch/select statements inside the clause; loops: number of
// enclosing loops inside the clause.  A return / continue / break that leaves
// the clause early cannot be expressed in a dcase and is reported.
func (d *dcalls) stmts(list []ast.Stmt, cond string, top bool, inner, loops int) {
	for i, s := range list {
		d.stmt(s, cond, top && i == len(list)-1, inner, loops)
	}
}

func (d *dcalls) unsupported(what string, n ast.Node) {
	d.g.uns = append(d.g.uns, "dispatch case "+d.tag+": "+what+" "+truncate(d.g.p.text(n), 60))
}

func (d *dcalls) stmt(s ast.Stmt, cond string, last bool, inner, loops int) {
	p := d.g.p
	switch x := s.(type) {
	case nil:
	case *ast.ExprStmt:
		d.exprCalls(x.X, cond)
	case *ast.AssignStmt:
		for _, l := range x.Lhs {
			d.exprCalls(l, cond)
		}
		for _, r := range x.Rhs {
			d.exprCalls(r, cond)
		}
	case *ast.DeclStmt:
		d.exprCalls(x, cond)
	case *ast.IncDecStmt:
		d.exprCalls(x.X, cond)
	case *ast.GoStmt:
		d.calls = append(d.calls, [2]string{cond, "go:" + p.calleeText(x.Call)})
	case *ast.DeferStmt:
		d.calls = append(d.calls, [2]string{cond, "defer:" + p.deferText(x)})
	case *ast.SendStmt:
		d.calls = append(d.calls, [2]string{cond, "send:" + p.chanText(x.Chan)})
		d.exprCalls(x.Chan, cond)
		d.exprCalls(x.Value, cond)
	case *ast.ReturnStmt:
		for _, r := range x.Results {
			d.exprCalls(r, cond)
		}
		if !last {
			d.unsupported("nested", x)
		}
	case *ast.BranchStmt:
		switch {
		case x.Label != nil || x.Tok == token.GOTO || x.Tok == token.FALLTHROUGH:
			d.unsupported("jump", x)
		case x.Tok == token.CONTINUE && loops == 0 && !last:
			d.unsupported("nested", x)
		case x.Tok == token.BREAK && inner == 0 && !last:
			d.unsupported("nested", x)
		}
	case *ast.BlockStmt:
		d.stmts(x.List, cond, last, inner, loops)
	case *ast.LabeledStmt:
		d.stmt(x.Stmt, cond, last, inner, loops)
	case *ast.IfStmt:
		d.stmt(x.Init, cond, false, inner, loops)
		d.exprCalls(x.Cond, cond)
		d.stmts(x.Body.List, joinCond(cond, d.g.dispatchCond(x)), false, inner, loops)
		if x.Else != nil {
			d.stmt(x.Else, joinCond(cond, "other"), false, inner, loops)
		}
	case *ast.ForStmt:
		d.stmt(x.Init, cond, false, inner, loops)
		c := joinCond(cond, "other")
		d.exprCalls(x.Cond, c)
		d.stmts(x.Body.List, c, false, inner+1, loops+1)
		d.stmt(x.Post, c, false, inner+1, loops+1)
	case *ast.RangeStmt:
		d.exprCalls(x.X, cond)
		d.stmts(x.Body.List, joinCond(cond, "range"), false, inner+1, loops+1)
	case *ast.SwitchStmt:
		d.stmt(x.Init, cond, false, inner, loops)
		d.exprCalls(x.Tag, cond)
		for _, c := range x.Body.List {
			cc := c.(*ast.CaseClause)
			for _, e := range cc.List {
				d.exprCalls(e, cond)
			}
			d.stmts(cc.Body, joinCond(cond, "other"), false, inner+1, loops)
		}
	case *ast.TypeSwitchStmt:
		d.stmt(x.Init, cond, false, inner, loops)
		// an inner `switch msg.(type)` over the message itself
		onMsg := false
		var ta *ast.TypeAssertExpr
		switch a := x.Assign.(type) {
		case *ast.ExprStmt:
			ta, _ = unparen(a.X).(*ast.TypeAssertExpr)
		case *ast.AssignStmt:
			if len(a.Rhs) == 1 {
				ta, _ = unparen(a.Rhs[0]).(*ast.TypeAssertExpr)
			}
		}
		if ta != nil {
			if id, ok := unparen(ta.X).(*ast.Ident); ok && (id.Name == d.g.swVar || (d.g.swVar == "" && id.Name == d.g.msgVar)) {
				onMsg = true
			}
			d.exprCalls(ta.X, cond)
		}
		for _, c := range x.Body.List {
			cc := c.(*ast.CaseClause)
			k := "other"
			if onMsg && len(cc.List) > 0 {
				var ts []string
				for _, e := range cc.List {
					ts = append(ts, p.text(e))
				}
				k = strings.Join(ts, ",")
			}
			d.stmts(cc.Body, joinCond(cond, k), false, inner+1, loops)
		}
	case *ast.SelectStmt:
		for _, c := range x.Body.List {
			cc := c.(*ast.CommClause)
			// the communication itself sits under the enclosing condition
			// (reading ctx.Done() is not a call worth recording)
			switch cm := cc.Comm.(type) {
			case *ast.SendStmt:
				d.stmt(cm, cond, false, inner+1, loops)
			case *ast.ExprStmt:
				if !p.isCtxDoneComm(cc) {
					d.exprCalls(cm.X, cond)
				}
			case *ast.AssignStmt:
				for _, r := range cm.Rhs {
					d.exprCalls(r, cond)
				}
			}
			// `case <-p.ctx.Done(): return model, nil` is the cancellation guard
			if len(cc.Body) == 1 && p.isCtxDoneComm(cc) {
				if r, ok := cc.Body[0].(*ast.ReturnStmt); ok && len(r.Results) == 2 && isIdent(r.Results[1], "nil") {
					continue
				}
			}
			d.stmts(cc.Body, joinCond(cond, "other"), false, inner+1, loops)
		}
	case *ast.EmptyStmt:
	default:
		d.unsupported("statement", s)
	}
}

func (g *dispatchGen) caseEnd(body []ast.Stmt) string {
	if len(body) == 0 {
		return "DFall"
	}
	switch x := body[len(body)-1].(type) {
	case *ast.ReturnStmt:
		t := ""
		if len(x.Results) > 0 {
			t = g.p.text(x.Results[len(x.Results)-1])
		}
		return "(DReturn " + coqString(t) + ")"
	case *ast.BranchStmt:
		if x.Tok == token.CONTINUE && x.Label == nil {
			return "DContinue"
		}
	}
	return "DFall"
}

// classifyPre: the statements between the receive and the type switch.
func (g *dispatchGen) classifyPre(s ast.Stmt) string {
	p := g.p
	if is, ok := s.(*ast.IfStmt); ok && is.Init == nil && is.Else == nil && len(is.Body.List) == 1 {
		if b, ok := unparen(is.Cond).(*ast.BinaryExpr); ok && isIdent(b.Y, "nil") {
			// if p.filter != nil { msg = p.filter(model, msg) }
			if sel, ok := unparen(b.X).(*ast.SelectorExpr); ok && b.Op == token.NEQ && sel.Sel.Name == "filter" {
				if as, ok := is.Body.List[0].(*ast.AssignStmt); ok && as.Tok == token.ASSIGN && len(as.Lhs) == 1 && len(as.Rhs) == 1 && isIdent(as.Lhs[0], g.msgVar) {
					if c, ok := unparen(as.Rhs[0]).(*ast.CallExpr); ok && p.text(unparen(c.Fun)) == p.text(sel) && len(c.Args) == 2 && isIdent(c.Args[1], g.msgVar) {
						return "filter"
					}
				}
			}
			// if msg == nil { continue }
			if b.Op == token.EQL && isIdent(b.X, g.msgVar) {
				if br, ok := is.Body.List[0].(*ast.BranchStmt); ok && br.Tok == token.CONTINUE && br.Label == nil {
					return "nilcheck"
				}
			}
		}
	}
	return "other:" + truncate(p.text(s), 40)
}

// classifyPost: the statements after the type switch.  cmdsVar is the command
// channel parameter of eventLoop; cmdVar is updated when Update is seen.
func (g *dispatchGen) classifyPost(s ast.Stmt, cmdsVar string, cmdVar *string) (string, bool) {
	p := g.p
	msg := g.msgVar
	isCmdSend := func(st ast.Stmt) bool {
		ss, ok := st.(*ast.SendStmt)
		return ok && cmdsVar != "" && isIdent(ss.Chan, cmdsVar) && *cmdVar != "" && isIdent(ss.Value, *cmdVar)
	}
	switch x := s.(type) {
	case *ast.DeclStmt:
		if gd, ok := x.Decl.(*ast.GenDecl); ok && gd.Tok == token.VAR {
			simple := true
			for _, sp := range gd.Specs {
				if len(sp.(*ast.ValueSpec).Values) != 0 {
					simple = false
				}
			}
			if simple {
				return "", false
			}
		}
	case *ast.IfStmt:
		// if r, ok := p.renderer.(*standardRenderer); ok { r.handleMessages(msg) }
		if as, ok := x.Init.(*ast.AssignStmt); ok && x.Else == nil && as.Tok == token.DEFINE && len(as.Lhs) == 2 && len(as.Rhs) == 1 && len(x.Body.List) == 1 {
			ta, _ := unparen(as.Rhs[0]).(*ast.TypeAssertExpr)
			r, _ := as.Lhs[0].(*ast.Ident)
			okv, _ := as.Lhs[1].(*ast.Ident)
			if ta != nil && ta.Type != nil && r != nil && okv != nil && isIdent(x.Cond, okv.Name) && p.text(ta.Type) == "*standardRenderer" {
				if sel, ok := unparen(ta.X).(*ast.SelectorExpr); ok && sel.Sel.Name == "renderer" {
					if es, ok := x.Body.List[0].(*ast.ExprStmt); ok {
						if c, ok := unparen(es.X).(*ast.CallExpr); ok && p.calleeText(c) == r.Name+".handleMessages" && len(c.Args) == 1 && isIdent(c.Args[0], msg) {
							return "handleMessages", true
						}
					}
				}
			}
		}
	case *ast.AssignStmt:
		// model, cmd = model.Update(msg)
		if len(x.Lhs) == 2 && len(x.Rhs) == 1 {
			if c, ok := unparen(x.Rhs[0]).(*ast.CallExpr); ok && len(c.Args) == 1 && isIdent(c.Args[0], msg) {
				if sel, ok := unparen(c.Fun).(*ast.SelectorExpr); ok && sel.Sel.Name == "Update" && p.text(sel.X) == p.text(x.Lhs[0]) {
					if id, ok := x.Lhs[1].(*ast.Ident); ok {
						*cmdVar = id.Name
						return "Update", true
					}
				}
			}
		}
	case *ast.SendStmt:
		if isCmdSend(x) {
			return "cmds<-:bare", true
		}
	case *ast.SelectStmt:
		if len(x.Body.List) == 2 {
			var guard, send bool
			for _, c := range x.Body.List {
				cc := c.(*ast.CommClause)
				if p.isCtxDoneComm(cc) && len(cc.Body) > 0 {
					if _, ok := cc.Body[len(cc.Body)-1].(*ast.ReturnStmt); ok {
						guard = true
					}
				}
				if cc.Comm != nil && isCmdSend(cc.Comm) && len(cc.Body) == 0 {
					send = true
				}
			}
			if guard && send {
				return "cmds<-:ctx", true
			}
		}
	case *ast.ExprStmt:
		// p.renderer.write(model.View())
		if c, ok := unparen(x.X).(*ast.CallExpr); ok && len(c.Args) == 1 {
			if sel, ok := unparen(c.Fun).(*ast.SelectorExpr); ok && sel.Sel.Name == "write" {
				if rs, ok := unparen(sel.X).(*ast.SelectorExpr); ok && rs.Sel.Name == "renderer" {
					if a, ok := unparen(c.Args[0]).(*ast.CallExpr); ok && len(a.Args) == 0 {
						if as, ok := unparen(a.Fun).(*ast.SelectorExpr); ok && as.Sel.Name == "View" {
							return "write(View)", true
						}
					}
				}
			}
		}
	}
	return "other:" + p.text(s), true
}

func genDispatch(p *pkgInfo) (string, error) {
	g := &dispatchGen{p: p}
	var pre, post, cases, selCases []string

	analyse := func() {
		fd := p.funcDecl("Program", "eventLoop")
		if fd == nil || fd.Body == nil {
			g.uns = append(g.uns, "eventLoop: method not found")
			return
		}
		// the channel parameter the commands are sent on
		cmdsVar := ""
		if fd.Type.Params != nil {
			for _, f := range fd.Type.Params.List {
				if _, ok := f.Type.(*ast.ChanType); ok && len(f.Names) == 1 {
					cmdsVar = f.Names[0].Name
				}
			}
		}
		// for { select { ... } }
		var sel *ast.SelectStmt
		for _, s := range fd.Body.List {
			if f, ok := s.(*ast.ForStmt); ok && f.Init == nil && f.Cond == nil && f.Post == nil && len(f.Body.List) == 1 {
				if ss, ok := f.Body.List[0].(*ast.SelectStmt); ok {
					if sel != nil {
						g.uns = append(g.uns, "eventLoop: more than one `for { select {...} }`")
					}
					sel = ss
				}
			}
		}
		if sel == nil {
			g.uns = append(g.uns, "eventLoop: `for { select {...} }` not found")
			return
		}
		var msgsCase *ast.CommClause
		for _, c := range sel.Body.List {
			cc := c.(*ast.CommClause)
			comm, outcome := "default", "body"
			if cc.Comm != nil {
				comm = p.text(cc.Comm)
			}
			if len(cc.Body) == 1 {
				if r, ok := cc.Body[0].(*ast.ReturnStmt); ok {
					outcome = p.text(r)
				}
			}
			selCases = append(selCases, coqPair(comm, outcome))
			// case msg := <-p.msgs:
			if as, ok := cc.Comm.(*ast.AssignStmt); ok && len(as.Lhs) == 1 && len(as.Rhs) == 1 {
				if ch, _ := recvExpr(as.Rhs[0]); ch != nil {
					if s, ok := unparen(ch).(*ast.SelectorExpr); ok && s.Sel.Name == "msgs" {
						if id, ok := as.Lhs[0].(*ast.Ident); ok {
							if msgsCase != nil {
								g.uns = append(g.uns, "eventLoop: more than one case receiving from msgs")
							}
							msgsCase, g.msgVar = cc, id.Name
						}
					}
				}
			}
		}
		if msgsCase == nil {
			g.uns = append(g.uns, "eventLoop: `case msg := <-p.msgs` not found")
			return
		}
		// the type switch over the message
		swIdx := -1
		for i, s := range msgsCase.Body {
			if _, ok := s.(*ast.TypeSwitchStmt); ok {
				if swIdx >= 0 {
					g.uns = append(g.uns, "eventLoop: more than one type switch in the msgs case")
					continue
				}
				swIdx = i
			}
		}
		if swIdx < 0 {
			g.uns = append(g.uns, "eventLoop: type switch over the message not found")
			return
		}
		sw := msgsCase.Body[swIdx].(*ast.TypeSwitchStmt)
		var ta *ast.TypeAssertExpr
		switch a := sw.Assign.(type) {
		case *ast.ExprStmt:
			ta, _ = unparen(a.X).(*ast.TypeAssertExpr)
		case *ast.AssignStmt:
			if len(a.Lhs) == 1 && len(a.Rhs) == 1 {
				ta, _ = unparen(a.Rhs[0]).(*ast.TypeAssertExpr)
				if id, ok := a.Lhs[0].(*ast.Ident); ok {
					g.swVar = id.Name
				}
			}
		}
		if ta == nil || !isIdent(ta.X, g.msgVar) || sw.Init != nil {
			g.uns = append(g.uns, "eventLoop: the type switch is not over the received message: "+p.text(sw.Assign))
		}
		for _, s := range msgsCase.Body[:swIdx] {
			pre = append(pre, coqString(g.classifyPre(s)))
		}
		for _, c := range sw.Body.List {
			cc := c.(*ast.CaseClause)
			types := []string{}
			for _, e := range cc.List {
				types = append(types, p.text(e))
			}
			if cc.List == nil {
				types = []string{"default"}
			}
			d := &dcalls{g: g, tag: strings.Join(types, ",")}
			d.stmts(cc.Body, "", true, 0, 0)
			pairs := make([]string, len(d.calls))
			for i, c := range d.calls {
				pairs[i] = coqPair(c[0], c[1])
			}
			cl := "[]"
			if len(pairs) > 0 {
				cl = "[" + strings.Join(pairs, "; ") + "]"
			}
			cases = append(cases, fmt.Sprintf("mk_dcase %s %s %s", coqStringList(types), cl, g.caseEnd(cc.Body)))
		}
		cmdVar := ""
		for _, s := range msgsCase.Body[swIdx+1:] {
			if t, ok := g.classifyPost(s, cmdsVar, &cmdVar); ok {
				post = append(post, coqString(t))
			}
		}
	}
	analyse()

	var b strings.Builder
	b.WriteString("From Coq Require Import String List.\nImport ListNotations.\nOpen Scope string_scope.\nFrom BT Require Import Model.GenTypes.\n\n")
	b.WriteString("(* eventLoop, case msg := <-p.msgs: the statements before the type switch *)\n")
	fmt.Fprintf(&b, "Definition pre_switch : list string := %s.\n\n", coqLines(pre))
	b.WriteString("(* the cases of `switch msg := msg.(type)`: types, (condition, call) in source order, how the case ends *)\n")
	fmt.Fprintf(&b, "Definition dispatch : list dcase := %s.\n\n", coqLines(cases))
	b.WriteString("(* the statements after the type switch *)\n")
	fmt.Fprintf(&b, "Definition post_switch : list string := %s.\n\n", coqLines(post))
	b.WriteString("(* the cases of the select of the loop: communication, outcome *)\n")
	fmt.Fprintf(&b, "Definition select_cases : list (string * string) := %s.\n\n", coqLines(selCases))
	fmt.Fprintf(&b, "Definition unsupported : list string := %s.\n", coqStringList(g.uns))
	return b.String(), nil
}
