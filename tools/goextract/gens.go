package main

func generators() []generator {
	return []generator{
		{"TimerExpr", genTimerExpr},
		{"KeyTable", genKeyTable},
		{"Consts", genConsts},
		{"ChanOps", genChanOps},
		{"Dispatch", genDispatch},
		{"Lifecycle", genLifecycle},
		{"Signals", genSignals},
	}
}
