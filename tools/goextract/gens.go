package main

func generators() []generator {
	return []generator{
		{"TimerExpr", genTimerExpr},
	}
}
