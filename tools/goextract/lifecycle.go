package main

import (
	"fmt"
	"go/ast"
	"go/token"
	"strings"
)

// Lifecycle: the calls made by Program.Run, shutdown, restoreTerminalState,
// ReleaseTerminal, RestoreTerminal, exec, suspend, recoverFromPanic(+handlePanic),
// Kill and initTerminal, in source order, each with the (normalised) condition
// it sits under; the return statements of Run; Run's panic recovery.

type scallT struct{ cond, call string }

type lcGen struct {
	p       *pkgInfo
	recv    string          // receiver name of the method being walked
	queries map[string]bool // argument-less bool methods of the renderer interface, and `has`
	uns     []string
}

// rendererQueries: the methods `name() bool` of the interfaces of the package
// (altScreen, reportFocus, bracketedPasteActive): reading them is not an action.
func rendererQueries(p *pkgInfo) map[string]bool {
	q := map[string]bool{"has": true}
	for _, fn := range p.names {
		ast.Inspect(p.files[fn], func(n ast.Node) bool {
			it, ok := n.(*ast.InterfaceType)
			if !ok || it.Methods == nil {
				return true
			}
			for _, m := range it.Methods.List {
				ft, ok := m.Type.(*ast.FuncType)
				if !ok || (ft.Params != nil && len(ft.Params.List) != 0) || ft.Results == nil || len(ft.Results.List) != 1 {
					continue
				}
				if isIdent(ft.Results.List[0].Type, "bool") && len(ft.Results.List[0].Names) <= 1 {
					for _, nm := range m.Names {
						q[nm.Name] = true
					}
				}
			}
			return true
		})
	}
	return q
}

var fieldRenames = map[string]string{"altScreenWasActive": "altWasActive"}

// failNames: `err := p.X(); err != nil` gives the condition "<name>-failed".
var failNames = map[string]string{"Run": "run", "ReleaseTerminal": "release", "RestoreTerminal": "restore"}

func (g *lcGen) stripRecv(e ast.Expr) string {
	t := g.p.text(e)
	if g.recv != "" && strings.HasPrefix(t, g.recv+".") {
		t = t[len(g.recv)+1:]
	}
	if r, ok := fieldRenames[t]; ok {
		return r
	}
	return t
}

func lastSel(e ast.Expr) string {
	switch x := unparen(e).(type) {
	case *ast.SelectorExpr:
		return x.Sel.Name
	case *ast.Ident:
		return x.Name
	}
	return ""
}

func negText(s string) string {
	if strings.ContainsAny(s, " ;") {
		return "!(" + s + ")"
	}
	if strings.HasPrefix(s, "!") {
		return s[1:]
	}
	return "!" + s
}

// optionTest recognises `<x>.startupOptions & OPT` and returns OPT.
func optionTest(e ast.Expr) (string, bool) {
	b, ok := unparen(e).(*ast.BinaryExpr)
	if !ok || b.Op != token.AND {
		return "", false
	}
	for _, pr := range [][2]ast.Expr{{b.X, b.Y}, {b.Y, b.X}} {
		if lastSel(pr[0]) == "startupOptions" {
			if id, ok := unparen(pr[1]).(*ast.Ident); ok {
				return id.Name, true
			}
		}
	}
	return "", false
}

func isZeroLit(e ast.Expr) bool {
	bl, ok := unparen(e).(*ast.BasicLit)
	return ok && bl.Kind == token.INT && strings.Trim(bl.Value, "0xX_") == ""
}

// norm normalises a condition (negated when neg).
func (g *lcGen) norm(e ast.Expr, neg bool) string {
	p := g.p
	e = unparen(e)
	switch x := e.(type) {
	case *ast.UnaryExpr:
		if x.Op == token.NOT {
			return g.norm(x.X, !neg)
		}
	case *ast.Ident:
		if neg {
			return "!" + x.Name
		}
		return x.Name
	case *ast.SelectorExpr:
		if neg {
			return negText(g.stripRecv(x))
		}
		return g.stripRecv(x)
	case *ast.CallExpr:
		t := g.stripRecv(x)
		if sel, ok := unparen(x.Fun).(*ast.SelectorExpr); ok {
			switch {
			case sel.Sel.Name == "has" && lastSel(sel.X) == "startupOptions" && len(x.Args) == 1:
				t = p.text(x.Args[0])
			case sel.Sel.Name == "Cancel" && lastSel(sel.X) == "cancelReader" && len(x.Args) == 0:
				t = "cancelled"
			}
		}
		if neg {
			return negText(t)
		}
		return t
	case *ast.BinaryExpr:
		switch x.Op {
		case token.LAND, token.LOR:
			op, other := " && ", " || "
			if x.Op == token.LOR {
				op, other = other, op
			}
			part := func(y ast.Expr) string {
				s := g.norm(y, false)
				if strings.Contains(s, other) {
					s = "(" + s + ")"
				}
				return s
			}
			s := part(x.X) + op + part(x.Y)
			if neg {
				return "!(" + s + ")"
			}
			return s
		case token.EQL, token.NEQ:
			positive := (x.Op == token.NEQ) != neg
			l, r := x.X, x.Y
			if isIdent(l, "nil") || isZeroLit(l) {
				l, r = r, l
			}
			if opt, ok := optionTest(l); ok && isZeroLit(r) {
				if positive {
					return opt
				}
				return "!" + opt
			}
			if isIdent(r, "nil") {
				if positive {
					return g.stripRecv(l)
				}
				return g.stripRecv(l) + "==nil"
			}
			if bl, ok := unparen(r).(*ast.BasicLit); ok && bl.Kind == token.STRING && (bl.Value == `""` || bl.Value == "``") {
				if positive {
					return g.stripRecv(l)
				}
				return g.stripRecv(l) + `==""`
			}
		}
	}
	if neg {
		return "!(" + p.text(e) + ")"
	}
	return p.text(e)
}

// callTexts: how a call is recorded; nothing for builtins and conversions.
func (g *lcGen) callTexts(c *ast.CallExpr) []string {
	p := g.p
	if p.isConversionOrBuiltin(c) {
		return nil
	}
	callee := p.calleeText(c)
	if isIdent(c.Fun, "close") {
		return []string{p.text(c)}
	}
	sel, _ := unparen(c.Fun).(*ast.SelectorExpr)
	// atomic.StoreUint32(&p.ignoreSignals, 1)
	if strings.HasPrefix(callee, "atomic.Store") && len(c.Args) == 2 {
		if u, ok := unparen(c.Args[0]).(*ast.UnaryExpr); ok && u.Op == token.AND {
			return []string{g.stripRecv(u.X) + "=" + p.text(c.Args[1])}
		}
	}
	if sel != nil && len(c.Args) == 1 {
		arg := unparen(c.Args[0])
		// p.finishOnce.Do(func() { close(p.finished) })
		if lit, ok := arg.(*ast.FuncLit); ok && sel.Sel.Name == "Do" {
			var out []string
			ast.Inspect(lit.Body, func(n ast.Node) bool {
				if ic, ok := n.(*ast.CallExpr); ok {
					for _, t := range g.callTexts(ic) {
						out = append(out, g.stripRecv(sel.X)+".Do:"+t)
					}
				}
				return true
			})
			return out
		}
		// p.handlers.add(p.handleSignals())
		if sel.Sel.Name == "add" && lastSel(sel.X) == "handlers" {
			if ac, ok := arg.(*ast.CallExpr); ok {
				return []string{"handlers.add:" + p.calleeText(ac)}
			}
			return []string{"handlers.add:" + p.text(arg)}
		}
		// p.renderer.write(model.View())
		if ac, ok := arg.(*ast.CallExpr); ok && len(ac.Args) == 0 {
			if as, ok := unparen(ac.Fun).(*ast.SelectorExpr); ok && as.Sel.Name == "View" {
				return []string{callee + "(" + p.calleeText(ac) + ")"}
			}
		}
		if isSendCall(c) {
			return []string{callee + "(" + p.sendArg(arg) + ")"}
		}
	}
	return []string{callee}
}

type lcWalker struct {
	g       *lcGen
	out     []scallT
	shallow bool // only what executes unconditionally at this level
}

func (w *lcWalker) add(cond string, calls ...string) {
	for _, c := range calls {
		w.out = append(w.out, scallT{cond, c})
	}
}

// value records an expression in statement / right-hand-side / result position.
func (w *lcWalker) value(e ast.Expr, cond string) {
	switch x := unparen(e).(type) {
	case *ast.CallExpr:
		w.add(cond, w.g.callTexts(x)...)
	case *ast.UnaryExpr:
		if x.Op == token.ARROW {
			w.add(cond, "recv:"+w.g.p.chanText(x.X))
		}
	}
}

func (w *lcWalker) stmts(list []ast.Stmt, cond string) {
	for _, s := range list {
		w.stmt(s, cond)
	}
}

func isInputTypeSwitch(s *ast.SwitchStmt) bool {
	return s.Tag != nil && lastSel(s.Tag) == "inputType"
}

// ifConds handles the header of an if statement: records the calls of the
// init statement / a call used as the condition, and returns the condition of
// the body and of the else branch.
func (w *lcWalker) ifConds(s *ast.IfStmt, cond string) (string, string) {
	g := w.g
	if s.Init != nil {
		if as, ok := s.Init.(*ast.AssignStmt); ok && len(as.Rhs) == 1 {
			if c, ok := unparen(as.Rhs[0]).(*ast.CallExpr); ok {
				w.add(cond, g.callTexts(c)...)
				// v := f(); v != nil
				if b, ok := unparen(s.Cond).(*ast.BinaryExpr); ok && (b.Op == token.NEQ || b.Op == token.EQL) && isIdent(b.Y, "nil") {
					for _, l := range as.Lhs {
						id, ok := l.(*ast.Ident)
						if !ok || !isIdent(b.X, id.Name) {
							continue
						}
						pos := id.Name
						if strings.Contains(strings.ToLower(id.Name), "err") {
							n := lastSel(c.Fun)
							if r, ok := failNames[n]; ok {
								n = r
							}
							pos = n + "-failed"
						}
						if b.Op == token.EQL {
							return "!" + pos, pos
						}
						return pos, "!" + pos
					}
				}
				t := g.p.text(s.Init) + "; " + g.p.text(s.Cond)
				return t, negText(t)
			}
		}
		w.stmt(s.Init, cond)
		t := g.p.text(s.Init) + "; " + g.p.text(s.Cond)
		return t, negText(t)
	}
	// a call used as the condition: an action unless it is a query
	if c, ok := unparen(s.Cond).(*ast.CallExpr); ok {
		if !g.queries[lastSel(c.Fun)] {
			w.add(cond, g.callTexts(c)...)
		}
	}
	return g.norm(s.Cond, false), g.norm(s.Cond, true)
}

func (w *lcWalker) stmt(s ast.Stmt, cond string) {
	g, p := w.g, w.g.p
	switch x := s.(type) {
	case nil:
	case *ast.ExprStmt:
		w.value(x.X, cond)
	case *ast.AssignStmt:
		for _, r := range x.Rhs {
			w.value(r, cond)
		}
	case *ast.DeclStmt:
		if gd, ok := x.Decl.(*ast.GenDecl); ok && gd.Tok == token.VAR {
			for _, sp := range gd.Specs {
				for _, v := range sp.(*ast.ValueSpec).Values {
					w.value(v, cond)
				}
			}
		}
	case *ast.GoStmt:
		switch {
		case isSendCall(x.Call):
			w.add(cond, "go:"+p.calleeText(x.Call)+"("+p.sendArg(x.Call.Args[0])+")")
		default:
			w.add(cond, "go:"+p.calleeText(x.Call))
		}
	case *ast.SendStmt:
		w.add(cond, "send:"+p.chanText(x.Chan))
	case *ast.ReturnStmt:
		for _, r := range x.Results {
			w.value(r, cond)
		}
	case *ast.BlockStmt:
		w.stmts(x.List, cond)
	case *ast.LabeledStmt:
		w.stmt(x.Stmt, cond)
	case *ast.IfStmt:
		pos, neg := w.ifConds(x, cond)
		if w.shallow {
			return
		}
		w.stmts(x.Body.List, joinCond(cond, pos))
		if x.Else != nil {
			w.stmt(x.Else, joinCond(cond, neg))
		}
	case *ast.SwitchStmt:
		if isInputTypeSwitch(x) {
			return // the input-type switch of Run is not part of the lifecycle facts
		}
		w.stmt(x.Init, cond)
		if x.Tag != nil {
			w.value(x.Tag, cond)
		}
		if w.shallow {
			return
		}
		for _, c := range x.Body.List {
			cc := c.(*ast.CaseClause)
			k := "default"
			if cc.List != nil {
				var ts []string
				for _, e := range cc.List {
					ts = append(ts, p.text(e))
				}
				k = strings.Join(ts, "|")
				if x.Tag != nil {
					k = g.stripRecv(x.Tag) + "==" + k
				}
			}
			w.stmts(cc.Body, joinCond(cond, k))
		}
	case *ast.TypeSwitchStmt:
		w.stmt(x.Init, cond)
		if w.shallow {
			return
		}
		for _, c := range x.Body.List {
			cc := c.(*ast.CaseClause)
			k := "default"
			if cc.List != nil {
				var ts []string
				for _, e := range cc.List {
					ts = append(ts, p.text(e))
				}
				k = "type " + strings.Join(ts, "|")
			}
			w.stmts(cc.Body, joinCond(cond, k))
		}
	case *ast.ForStmt:
		w.stmt(x.Init, cond)
		if w.shallow {
			return
		}
		w.stmts(x.Body.List, joinCond(cond, "for"))
		w.stmt(x.Post, joinCond(cond, "for"))
	case *ast.RangeStmt:
		w.value(x.X, cond)
		if w.shallow {
			return
		}
		w.stmts(x.Body.List, joinCond(cond, "range"))
	case *ast.SelectStmt:
		if w.shallow {
			return
		}
		for _, c := range x.Body.List {
			cc := c.(*ast.CommClause)
			k := "default"
			if cc.Comm != nil {
				k = p.text(cc.Comm)
				if ss, ok := cc.Comm.(*ast.SendStmt); ok {
					w.add(cond, "send:"+p.chanText(ss.Chan))
				}
			}
			w.stmts(cc.Body, joinCond(cond, "select:"+k))
		}
	}
}

func (g *lcGen) method(name string) *ast.FuncDecl {
	fd := g.p.funcDecl("Program", name)
	g.recv = ""
	if fd != nil && fd.Recv != nil && len(fd.Recv.List) == 1 && len(fd.Recv.List[0].Names) == 1 {
		g.recv = fd.Recv.List[0].Names[0].Name
	}
	return fd
}

func (g *lcGen) callsOf(name string, optional bool) []scallT {
	fd := g.method(name)
	if fd == nil || fd.Body == nil {
		if !optional {
			g.uns = append(g.uns, name+": method of Program not found")
		}
		return nil
	}
	w := &lcWalker{g: g}
	w.stmts(fd.Body.List, "")
	return w.out
}

func coqScalls(l []scallT) string {
	items := make([]string, len(l))
	for i, c := range l {
		items[i] = "mk_scall " + coqString(c.cond) + " " + coqString(c.call)
	}
	return coqLines(items)
}

// childLists enumerates the statement lists directly nested in s (function
// literals are not entered).
func childLists(s ast.Stmt) [][]ast.Stmt {
	switch x := s.(type) {
	case *ast.BlockStmt:
		return [][]ast.Stmt{x.List}
	case *ast.LabeledStmt:
		return [][]ast.Stmt{{x.Stmt}}
	case *ast.IfStmt:
		out := [][]ast.Stmt{x.Body.List}
		switch e := x.Else.(type) {
		case *ast.BlockStmt:
			out = append(out, e.List)
		case *ast.IfStmt:
			out = append(out, childLists(e)...)
		}
		return out
	case *ast.ForStmt:
		return [][]ast.Stmt{x.Body.List}
	case *ast.RangeStmt:
		return [][]ast.Stmt{x.Body.List}
	case *ast.SwitchStmt:
		var out [][]ast.Stmt
		for _, c := range x.Body.List {
			out = append(out, c.(*ast.CaseClause).Body)
		}
		return out
	case *ast.TypeSwitchStmt:
		var out [][]ast.Stmt
		for _, c := range x.Body.List {
			out = append(out, c.(*ast.CaseClause).Body)
		}
		return out
	case *ast.SelectStmt:
		var out [][]ast.Stmt
		for _, c := range x.Body.List {
			out = append(out, c.(*ast.CommClause).Body)
		}
		return out
	}
	return nil
}

func namedResults(fd *ast.FuncDecl) []string {
	var out []string
	if fd.Type.Results != nil {
		for _, f := range fd.Type.Results.List {
			for _, n := range f.Names {
				if n.Name != "_" {
					out = append(out, n.Name)
				}
			}
		}
	}
	return out
}

func (g *lcGen) runReturns(fd *ast.FuncDecl) []string {
	p := g.p
	// the call of initTerminal (outside function literals)
	var initPos token.Pos
	ast.Inspect(fd.Body, func(n ast.Node) bool {
		switch x := n.(type) {
		case *ast.FuncLit:
			return false
		case *ast.CallExpr:
			if initPos == token.NoPos && lastSel(x.Fun) == "initTerminal" {
				initPos = x.Pos()
			}
		}
		return true
	})
	if initPos == token.NoPos {
		g.uns = append(g.uns, "Run: call of initTerminal not found")
	}
	named := namedResults(fd)
	var out []string
	var visit func(list []ast.Stmt)
	visit = func(list []ast.Stmt) {
		for i, s := range list {
			if r, ok := s.(*ast.ReturnStmt); ok {
				errText := ""
				if len(r.Results) > 0 {
					errText = p.text(r.Results[len(r.Results)-1])
				} else if len(named) > 0 {
					errText = named[len(named)-1]
				}
				w := &lcWalker{g: g, shallow: true}
				w.stmts(list[:i], "")
				var before []string
				for _, c := range w.out {
					before = append(before, c.call)
				}
				out = append(out, fmt.Sprintf("mk_sret %s %s %s", coqString(errText), coqBool(initPos != token.NoPos && r.Pos() > initPos), coqStringList(before)))
				continue
			}
			for _, l := range childLists(s) {
				visit(l)
			}
		}
	}
	visit(fd.Body.List)
	return out
}

// hasRecover: the body calls recover() directly (not in a nested literal).
func hasRecover(body ast.Node) bool {
	found := false
	ast.Inspect(body, func(n ast.Node) bool {
		if c, ok := n.(*ast.CallExpr); ok && isIdent(c.Fun, "recover") && len(c.Args) == 0 {
			found = true
		}
		return !found
	})
	return found
}

func (g *lcGen) runRecover(fd *ast.FuncDecl) []string {
	p := g.p
	named := map[string]bool{}
	for _, n := range namedResults(fd) {
		named[n] = true
	}
	var out []string
	found := 0
	ast.Inspect(fd.Body, func(n ast.Node) bool {
		switch x := n.(type) {
		case *ast.FuncLit:
			return false
		case *ast.DeferStmt:
			if lit, ok := unparen(x.Call.Fun).(*ast.FuncLit); ok {
				if !hasRecover(lit.Body) {
					return false
				}
				found++
				out = append(out, "defer:func")
				ast.Inspect(lit.Body, func(m ast.Node) bool {
					switch y := m.(type) {
					case *ast.CallExpr:
						out = append(out, p.calleeText(y))
						if p.calleeText(y) == "fmt.Errorf" {
							for _, a := range y.Args {
								out = append(out, "errorf-arg:"+p.text(a))
							}
						}
					case *ast.AssignStmt:
						for _, l := range y.Lhs {
							if id, ok := l.(*ast.Ident); ok && named[id.Name] {
								out = append(out, "assign:"+id.Name)
							}
						}
					case *ast.IncDecStmt:
						if id, ok := y.X.(*ast.Ident); ok && named[id.Name] {
							out = append(out, "assign:"+id.Name)
						}
					}
					return true
				})
				return false
			}
			// defer p.recoverFromPanic(): a method of Program that recovers
			if m := p.funcDecl("Program", lastSel(x.Call.Fun)); m != nil && m.Body != nil && hasRecover(m.Body) {
				if _, ok := unparen(x.Call.Fun).(*ast.SelectorExpr); ok {
					found++
					out = append(out, "defer:"+p.calleeText(x.Call))
				}
			}
			return false
		}
		return true
	})
	if found > 1 {
		g.uns = append(g.uns, "Run: more than one recovering defer")
	}
	if len(named) > 0 {
		out = append(out, "named-results")
	}
	return out
}

func genLifecycle(p *pkgInfo) (string, error) {
	g := &lcGen{p: p, queries: rendererQueries(p)}
	var b strings.Builder
	b.WriteString("From Coq Require Import String List.\nImport ListNotations.\nOpen Scope string_scope.\nFrom BT Require Import Model.GenTypes.\n\n")

	runCalls := g.callsOf("Run", false)
	b.WriteString("(* Run: calls in source order with the condition they sit under (the input-type switch is skipped) *)\n")
	fmt.Fprintf(&b, "Definition run_calls : list scall := %s.\n\n", coqScalls(runCalls))
	var rets, rec []string
	if fd := g.method("Run"); fd != nil && fd.Body != nil {
		rets = g.runReturns(fd)
		rec = g.runRecover(fd)
	}
	b.WriteString("(* Run: return statements: error result, after the call of initTerminal?, calls preceding it in its own block *)\n")
	fmt.Fprintf(&b, "Definition run_returns : list sret := %s.\n\n", coqLines(rets))

	for _, m := range [][2]string{
		{"shutdown_calls", "shutdown"},
		{"restore_terminal_state_calls", "restoreTerminalState"},
		{"release_terminal_calls", "ReleaseTerminal"},
		{"restore_terminal_calls", "RestoreTerminal"},
		{"exec_calls", "exec"},
		{"suspend_calls", "suspend"},
		{"recover_calls", "recoverFromPanic"},
		{"kill_calls", "Kill"},
		{"init_terminal_calls", "initTerminal"},
		{"disable_mouse_calls", "disableMouse"},
	} {
		calls := g.callsOf(m[1], false)
		what := m[1]
		if m[1] == "recoverFromPanic" {
			calls = append(calls, g.callsOf("handlePanic", true)...)
			what = "recoverFromPanic, then handlePanic if present"
		}
		fmt.Fprintf(&b, "(* %s *)\nDefinition %s : list scall := %s.\n\n", what, m[0], coqScalls(calls))
	}

	b.WriteString("(* Run's panic recovery *)\n")
	fmt.Fprintf(&b, "Definition run_recover : list string := %s.\n\n", coqStringList(rec))
	fmt.Fprintf(&b, "Definition unsupported : list string := %s.\n", coqStringList(g.uns))
	return b.String(), nil
}
