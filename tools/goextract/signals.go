package main

import (
	"fmt"
	"go/ast"
	"go/token"
	"strings"
)

// Signals: structural facts about the signal handler, the resize listener,
// the API entry points and Run's prologue, plus the normalised body text
// ("shape") of the few functions whose model is a hand-written mirror with no
// finer-grained extraction (compared with frozen reference shapes on the Coq
// side: an edit to one of them is an unclassified change).

type sigGen struct {
	p             *pkgInfo
	uns           []string
	killedErrArgs []string
}

// enclosing returns, for every node inside root, the stack of its ancestors.
func walkStack(root ast.Node, f func(n ast.Node, stack []ast.Node)) {
	var stack []ast.Node
	ast.Inspect(root, func(n ast.Node) bool {
		if n == nil {
			stack = stack[:len(stack)-1]
			return true
		}
		f(n, stack)
		stack = append(stack, n)
		return true
	})
}

func (g *sigGen) handleSignalsFacts() []string {
	p := g.p
	fd := p.funcDecl("Program", "handleSignals")
	if fd == nil || fd.Body == nil {
		g.uns = append(g.uns, "handleSignals not found")
		return nil
	}
	var facts []string
	add := func(s string) {
		for _, x := range facts {
			if x == s {
				return
			}
		}
		facts = append(facts, s)
	}
	sigRecvs, sigRecvsInLoop := 0, 0
	sends, sendsChecked := 0, 0
	walkStack(fd.Body, func(n ast.Node, stack []ast.Node) {
		switch x := n.(type) {
		case *ast.CallExpr:
			if p.calleeText(x) == "signal.Notify" {
				for _, a := range x.Args[1:] {
					add("notify:" + p.text(a))
				}
			}
			if isSendCall(x) {
				sends++
				arg := p.sendArg(x.Args[0])
				checked := false
				label := "always"
				for i := len(stack) - 1; i >= 0; i-- {
					switch y := stack[i].(type) {
					case *ast.IfStmt:
						c := p.text(y.Cond)
						if strings.Contains(c, "ignoreSignals") && strings.Contains(c, "== 0") && within(y.Body, x) {
							checked = true
						}
					case *ast.CaseClause:
						if label == "always" {
							if len(y.List) == 0 {
								label = "default"
							} else {
								var l []string
								for _, e := range y.List {
									l = append(l, p.text(e))
								}
								label = strings.Join(l, ",")
							}
						}
					}
				}
				if checked {
					sendsChecked++
				}
				add("map:" + label + "->" + arg)
			}
		case *ast.SendStmt:
			sends++
			add("bare-send:" + p.chanText(x.Chan))
		case *ast.CommClause:
			if x.Comm == nil {
				return
			}
			var rx ast.Expr
			switch c := x.Comm.(type) {
			case *ast.AssignStmt:
				if len(c.Rhs) == 1 {
					rx, _ = recvExpr(c.Rhs[0])
				}
			case *ast.ExprStmt:
				rx, _ = recvExpr(c.X)
			}
			if rx != nil && p.chanText(rx) == "sig" {
				// does the branch that handles a signal leave the goroutine afterwards?
				for _, st := range x.Body {
					ast.Inspect(st, func(m ast.Node) bool {
						if _, ok := m.(*ast.FuncLit); ok {
							return false
						}
						if _, ok := m.(*ast.ReturnStmt); ok {
							add("returns-after-forward")
						}
						return true
					})
				}
				sigRecvs++
				for i := len(stack) - 1; i >= 0; i-- {
					if _, ok := stack[i].(*ast.ForStmt); ok {
						sigRecvsInLoop++
						break
					}
					if _, ok := stack[i].(*ast.FuncLit); ok {
						break
					}
				}
			}
		}
	})
	if sigRecvs > 0 && sigRecvs == sigRecvsInLoop {
		add("loop")
	}
	if sends > 0 && sends == sendsChecked {
		add("ignore-check")
	}
	return facts
}

func within(outer ast.Node, inner ast.Node) bool {
	return outer.Pos() <= inner.Pos() && inner.End() <= outer.End()
}

// runPrologue: the defers registered in Run before its first return statement,
// and the right-hand side of `killed := ...`.
func (g *sigGen) runPrologue() (defers []string, killed string) {
	p := g.p
	fd := p.funcDecl("Program", "Run")
	if fd == nil || fd.Body == nil {
		g.uns = append(g.uns, "Run not found")
		return nil, ""
	}
	first := token.Pos(0)
	ast.Inspect(fd.Body, func(n ast.Node) bool {
		switch x := n.(type) {
		case *ast.FuncLit:
			return false
		case *ast.ReturnStmt:
			if first == 0 || x.Pos() < first {
				first = x.Pos()
			}
		}
		return true
	})
	for _, s := range fd.Body.List {
		if d, ok := s.(*ast.DeferStmt); ok && (first == 0 || d.Pos() < first) {
			defers = append(defers, p.deferText(d))
		}
	}
	ast.Inspect(fd.Body, func(n ast.Node) bool {
		if a, ok := n.(*ast.AssignStmt); ok && len(a.Lhs) == 1 && len(a.Rhs) == 1 && isIdent(a.Lhs[0], "killed") {
			killed = p.text(a.Rhs[0])
		}
		return true
	})
	// if killed && err == nil { err = fmt.Errorf(...) }: the arguments of that Errorf
	ast.Inspect(fd.Body, func(n ast.Node) bool {
		if is, ok := n.(*ast.IfStmt); ok && strings.Contains(p.text(is.Cond), "killed") {
			ast.Inspect(is.Body, func(m ast.Node) bool {
				if c, ok := m.(*ast.CallExpr); ok && p.calleeText(c) == "fmt.Errorf" {
					for _, a := range c.Args {
						g.killedErrArgs = append(g.killedErrArgs, p.text(a))
					}
				}
				return true
			})
		}
		return true
	})
	return defers, killed
}

func (g *sigGen) shape(recv, name string) (string, bool) {
	fd := g.p.funcDecl(recv, name)
	if fd == nil || fd.Body == nil {
		return "", false
	}
	restore := alphaRename(fd, fd.Body)
	defer restore()
	return stripLineComments(g.p.src(fd.Body)), true
}

// alphaRename renames, in place, every variable declared inside fd (parameters, results, locals, closure
// parameters - not the receiver, not package-level names, not fields or labels) to v1, v2, ... in order of first
// occurrence under root, so that a shape does not depend on the names of locals.  The returned function undoes it.
func alphaRename(fd *ast.FuncDecl, root ast.Node) func() {
	names := map[*ast.Object]string{}
	type savedName struct {
		id  *ast.Ident
		old string
	}
	var saved []savedName
	isRecv := func(o *ast.Object) bool {
		if fd.Recv == nil {
			return false
		}
		for _, f := range fd.Recv.List {
			for _, n := range f.Names {
				if n.Obj == o {
					return true
				}
			}
		}
		return false
	}
	lo, hi := fd.Pos(), fd.End()
	// first collect (Object.Pos looks the declaring identifier up by name, so nothing may be renamed yet)
	var ids []*ast.Ident
	ast.Inspect(root, func(n ast.Node) bool {
		id, ok := n.(*ast.Ident)
		if !ok || id.Obj == nil || id.Obj.Kind != ast.Var || id.Name == "_" {
			return true
		}
		if pos := id.Obj.Pos(); pos < lo || pos >= hi || isRecv(id.Obj) {
			return true
		}
		ids = append(ids, id)
		return true
	})
	for _, id := range ids {
		nm, seen := names[id.Obj]
		if !seen {
			nm = fmt.Sprintf("v%d", len(names)+1)
			names[id.Obj] = nm
		}
		saved = append(saved, savedName{id, id.Name})
		id.Name = nm
	}
	return func() {
		for _, s := range saved {
			s.id.Name = s.old
		}
	}
}

// stripLineComments removes // comments (the printer keeps those attached to statements) and collapses white space.
func stripLineComments(src string) string {
	var out []string
	for _, l := range strings.Split(src, "\n") {
		if i := strings.Index(l, "//"); i >= 0 && !strings.Contains(l[:i], "\"") {
			l = l[:i]
		}
		out = append(out, l)
	}
	return oneLine(strings.Join(out, "\n"))
}

// caseShape: the body text of one case of eventLoop's type switch.
func (g *sigGen) eventLoopCase(typ string) (string, bool) {
	fd := g.p.funcDecl("Program", "eventLoop")
	if fd == nil || fd.Body == nil {
		return "", false
	}
	out, ok := "", false
	ast.Inspect(fd.Body, func(n ast.Node) bool {
		cc, isCC := n.(*ast.CaseClause)
		if !isCC || ok {
			return true
		}
		for _, e := range cc.List {
			if g.p.text(e) == typ {
				restore := alphaRename(fd, cc)
				defer restore()
				var parts []string
				for _, s := range cc.Body {
					parts = append(parts, stripLineComments(g.p.src(s)))
				}
				out, ok = strings.Join(parts, " ; "), true
				return false
			}
		}
		return true
	})
	return out, ok
}

func genSignals(p *pkgInfo) (string, error) {
	g := &sigGen{p: p}
	var b strings.Builder
	b.WriteString("From Coq Require Import String List.\nImport ListNotations.\nOpen Scope string_scope.\n\n")
	facts := g.handleSignalsFacts()
	b.WriteString("(* handleSignals: signals subscribed to, signal -> message map, whether the wait sits in a loop, whether every forward is under the ignoreSignals test *)\n")
	fmt.Fprintf(&b, "Definition handle_signals_facts : list string := %s.\n\n", coqStringList(facts))
	defers, killed := g.runPrologue()
	b.WriteString("(* Run: defers registered before its first return statement *)\n")
	fmt.Fprintf(&b, "Definition run_leading_defers : list string := %s.\n\n", coqStringList(defers))
	fmt.Fprintf(&b, "Definition run_killed_expr : string := %s.\n\n", coqString(killed))
	fmt.Fprintf(&b, "Definition run_killed_errorf_args : list string := %s.\n\n", coqStringList(g.killedErrArgs))
	b.WriteString("(* normalised bodies of the functions mirrored by hand *)\n")
	var shapes []string
	for _, f := range [][2]string{
		{"Program", "handleSignals"}, {"Program", "handleResize"}, {"Program", "listenForResize"}, {"Program", "checkResize"},
		{"Program", "Send"}, {"Program", "Quit"}, {"Program", "Kill"}, {"Program", "Wait"}, {"Program", "Println"}, {"Program", "Printf"},
		{"Program", "handleCommands"}, {"channelHandlers", "shutdown"}, {"Program", "readLoop"}, {"Program", "waitForReadLoop"},
		{"Program", "exec"}, {"Program", "suspend"}, {"", "Batch"}, {"", "Sequence"}, {"", "compactCmds"},
		{"standardRenderer", "start"}, {"standardRenderer", "stop"}, {"standardRenderer", "kill"}, {"standardRenderer", "listen"},
		{"Program", "shutdown"}, {"Program", "recoverFromPanic"}, {"Program", "handlePanic"}, {"Program", "initCancelReader"},
		{"", "Every"}, {"", "Tick"},
		{"", "NewProgram"}, {"Program", "ReleaseTerminal"}, {"Program", "RestoreTerminal"}, {"Program", "restoreTerminalState"},
		{"Program", "restoreInput"}, {"Program", "initTerminal"}, {"Program", "initInput"}, {"standardRenderer", "stopTicker"},
		{"", "WithoutSignals"}, {"", "WithoutSignalHandler"}, {"", "WithoutCatchPanics"}, {"", "readInputs"},
	} {
		s, ok := g.shape(f[0], f[1])
		if !ok {
			continue
		}
		key := f[1]
		if f[0] != "" && f[0] != "Program" {
			key = f[0] + "." + f[1]
		}
		shapes = append(shapes, coqPair(key, s))
	}
	for _, t := range []string{"sequenceMsg", "BatchMsg"} {
		if s, ok := g.eventLoopCase(t); ok {
			shapes = append(shapes, coqPair("eventLoop:"+t, s))
		} else {
			g.uns = append(g.uns, "eventLoop: case "+t+" not found")
		}
	}
	fmt.Fprintf(&b, "Definition shapes : list (string * string) := %s.\n\n", coqLines(shapes))
	fmt.Fprintf(&b, "Definition unsupported : list string := %s.\n", coqStringList(g.uns))
	return b.String(), nil
}
