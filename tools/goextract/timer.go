package main

import (
	"fmt"
	"go/ast"
	"go/token"
	"strings"
)

// Translation of the delay expression of Every / Tick (commands.go).

type timerInfo struct {
	name         string
	delay        string // Coq expression over `now` and `d`
	armedAtCreat bool
	cbGetsTimer  bool
	resIsCb      bool
	recvOnce     bool
	unsupported  []string
}

var durConsts = map[string]string{
	"Nanosecond": "1", "Microsecond": "1000", "Millisecond": "1000000",
	"Second": "1000000000", "Minute": "60000000000", "Hour": "3600000000000",
}

func (ti *timerInfo) expr(p *pkgInfo, e ast.Expr, env map[string]string) string {
	switch x := e.(type) {
	case *ast.ParenExpr:
		return ti.expr(p, x.X, env)
	case *ast.Ident:
		if v, ok := env[x.Name]; ok {
			return v
		}
	case *ast.BasicLit:
		if x.Kind == token.INT {
			return "(" + x.Value + ")"
		}
	case *ast.SelectorExpr:
		if id, ok := x.X.(*ast.Ident); ok && id.Name == "time" {
			if v, ok := durConsts[x.Sel.Name]; ok {
				return "(" + v + ")"
			}
		}
	case *ast.BinaryExpr:
		a, b := ti.expr(p, x.X, env), ti.expr(p, x.Y, env)
		switch x.Op {
		case token.ADD:
			return "(" + a + " + " + b + ")"
		case token.SUB:
			return "(" + a + " - " + b + ")"
		case token.MUL:
			return "(" + a + " * " + b + ")"
		case token.QUO:
			return "(Z.quot " + a + " " + b + ")"
		case token.REM:
			return "(Z.rem " + a + " " + b + ")"
		}
	case *ast.CallExpr:
		if sel, ok := x.Fun.(*ast.SelectorExpr); ok {
			if id, ok := sel.X.(*ast.Ident); ok && id.Name == "time" {
				switch sel.Sel.Name {
				case "Now":
					if len(x.Args) == 0 {
						return "now"
					}
				case "Duration":
					if len(x.Args) == 1 {
						return ti.expr(p, x.Args[0], env)
					}
				case "Until":
					if len(x.Args) == 1 {
						return "(t_sub " + ti.expr(p, x.Args[0], env) + " now)"
					}
				case "Since":
					if len(x.Args) == 1 {
						return "(t_sub now " + ti.expr(p, x.Args[0], env) + ")"
					}
				}
			}
			fn := map[string]string{"Truncate": "t_truncate", "Round": "t_round", "Add": "t_add", "Sub": "t_sub"}[sel.Sel.Name]
			if fn != "" && len(x.Args) == 1 {
				return "(" + fn + " " + ti.expr(p, sel.X, env) + " " + ti.expr(p, x.Args[0], env) + ")"
			}
		}
	}
	ti.unsupported = append(ti.unsupported, ti.name+": expression "+p.src(e))
	return "0"
}

func containsNewTimer(n ast.Node) *ast.CallExpr {
	var found *ast.CallExpr
	ast.Inspect(n, func(m ast.Node) bool {
		if c, ok := m.(*ast.CallExpr); ok {
			if sel, ok := c.Fun.(*ast.SelectorExpr); ok {
				if id, ok := sel.X.(*ast.Ident); ok && id.Name == "time" && (sel.Sel.Name == "NewTimer" || sel.Sel.Name == "After" || sel.Sel.Name == "AfterFunc") {
					found = c
					return false
				}
			}
		}
		return true
	})
	return found
}

func analyseTimer(p *pkgInfo, name string) *timerInfo {
	ti := &timerInfo{name: name}
	fd := p.funcDecl("", name)
	if fd == nil || fd.Body == nil || fd.Type.Params == nil || len(fd.Type.Params.List) < 2 {
		ti.unsupported = append(ti.unsupported, name+": function not found or unexpected signature")
		ti.delay = "0"
		return ti
	}
	var params []string
	for _, f := range fd.Type.Params.List {
		for _, n := range f.Names {
			params = append(params, n.Name)
		}
	}
	durName, fnName := params[0], params[len(params)-1]
	env := map[string]string{durName: "d"}
	var closure *ast.FuncLit
	var timerVar string
	var timerArg ast.Expr
	inClosure := false
	scan := func(stmts []ast.Stmt, closureLevel bool) {
		for _, s := range stmts {
			switch x := s.(type) {
			case *ast.AssignStmt:
				if len(x.Lhs) == 1 && len(x.Rhs) == 1 {
					lhs, ok := x.Lhs[0].(*ast.Ident)
					if !ok {
						continue
					}
					if c := containsNewTimer(x.Rhs[0]); c != nil && timerArg == nil {
						if len(c.Args) >= 1 {
							timerVar, timerArg, inClosure = lhs.Name, c.Args[0], closureLevel
							if sel := c.Fun.(*ast.SelectorExpr); sel.Sel.Name != "NewTimer" {
								ti.unsupported = append(ti.unsupported, name+": timer created with time."+sel.Sel.Name)
							}
						}
						continue
					}
					if _, isRecv := x.Rhs[0].(*ast.UnaryExpr); isRecv {
						continue
					}
					if timerArg == nil { // only definitions that precede the timer matter
						env[lhs.Name] = ti.expr(p, x.Rhs[0], env)
					}
				}
			case *ast.ReturnStmt:
				if !closureLevel && len(x.Results) == 1 {
					if fl, ok := x.Results[0].(*ast.FuncLit); ok {
						closure = fl
					}
				}
			}
		}
	}
	scan(fd.Body.List, false)
	if closure == nil {
		ti.unsupported = append(ti.unsupported, name+": does not return a function literal")
		ti.delay = "0"
		return ti
	}
	if timerArg == nil {
		scan(closure.Body.List, true)
	}
	if timerArg == nil {
		ti.unsupported = append(ti.unsupported, name+": no time.NewTimer call found")
		ti.delay = "0"
		return ti
	}
	ti.armedAtCreat = !inClosure
	ti.delay = ti.expr(p, timerArg, env)

	// the closure: ts := <-t.C ; ... ; return fn(ts)
	recvVar := ""
	recvs := 0
	var walk func(n ast.Node, inLoop bool)
	walk = func(n ast.Node, inLoop bool) {
		ast.Inspect(n, func(m ast.Node) bool {
			switch y := m.(type) {
			case *ast.ForStmt:
				if y.Cond != nil { // guarded drain loop: non-blocking receives
					walk(y.Body, true)
					return false
				}
			case *ast.AssignStmt:
				if len(y.Lhs) == 1 && len(y.Rhs) == 1 {
					if u, ok := y.Rhs[0].(*ast.UnaryExpr); ok && u.Op == token.ARROW && isTimerChan(u.X, timerVar) && !inLoop {
						if id, ok := y.Lhs[0].(*ast.Ident); ok && recvVar == "" {
							recvVar = id.Name
						}
					}
				}
			case *ast.UnaryExpr:
				if y.Op == token.ARROW && isTimerChan(y.X, timerVar) && !inLoop {
					recvs++
				}
			}
			return true
		})
	}
	walk(closure.Body, false)
	ti.recvOnce = recvs == 1
	// last statement must be `return fn(recvVar)`
	if n := len(closure.Body.List); n > 0 {
		if r, ok := closure.Body.List[n-1].(*ast.ReturnStmt); ok && len(r.Results) == 1 {
			if c, ok := r.Results[0].(*ast.CallExpr); ok {
				if id, ok := c.Fun.(*ast.Ident); ok && id.Name == fnName {
					ti.resIsCb = true
					if len(c.Args) == 1 {
						if a, ok := c.Args[0].(*ast.Ident); ok && a.Name == recvVar && recvVar != "" {
							ti.cbGetsTimer = true
						}
					}
				}
			}
		}
	}
	// any other return inside the closure breaks "result is the callback's result"
	nret := 0
	ast.Inspect(closure.Body, func(m ast.Node) bool {
		if _, ok := m.(*ast.FuncLit); ok && m != ast.Node(closure) {
			return false
		}
		if _, ok := m.(*ast.ReturnStmt); ok {
			nret++
		}
		return true
	})
	if nret != 1 {
		ti.resIsCb = false
	}
	return ti
}

func isTimerChan(e ast.Expr, timerVar string) bool {
	sel, ok := e.(*ast.SelectorExpr)
	if !ok || sel.Sel.Name != "C" {
		return false
	}
	id, ok := sel.X.(*ast.Ident)
	return ok && id.Name == timerVar
}

func genTimerExpr(p *pkgInfo) (string, error) {
	var b strings.Builder
	b.WriteString("From Coq Require Import ZArith String List.\nImport ListNotations.\nFrom BT Require Import Model.Timer.\nOpen Scope Z_scope.\nOpen Scope string_scope.\n\n")
	var uns []string
	for _, n := range []string{"Every", "Tick"} {
		ti := analyseTimer(p, n)
		ln := strings.ToLower(n)
		fmt.Fprintf(&b, "(* %s: argument of time.NewTimer, with now = time.Now() read in the constructor, d = the duration parameter *)\n", n)
		fmt.Fprintf(&b, "Definition %s_delay (now d : Z) : Z := %s.\n", ln, ti.delay)
		fmt.Fprintf(&b, "Definition %s_flags : timer_flags := {| armed_at_creation := %s; callback_gets_timer_value := %s; result_is_callback_result := %s; receives_once := %s |}.\n\n",
			ln, coqBool(ti.armedAtCreat), coqBool(ti.cbGetsTimer), coqBool(ti.resIsCb), coqBool(ti.recvOnce))
		uns = append(uns, ti.unsupported...)
	}
	fmt.Fprintf(&b, "Definition unsupported : list string := %s.\n", coqStringList(uns))
	return b.String(), nil
}
