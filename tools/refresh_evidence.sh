#!/bin/bash
# Re-runs every claimed quick check on the clean tree so that the committed evidence comes from clean-tree runs.
cd "$(dirname "$0")/.."
git -C ${VERIF_REPO:-/repo} diff --quiet || { echo "/repo not clean"; exit 2; }
for p in $(python3 -c "import json;print(' '.join(c['property_id'] for c in json.load(open('MANIFEST.json'))['checks']))"); do
  ./check $p --tier quick > /tmp/refresh_$p.out 2> /tmp/refresh_$p.err; echo "$p rc=$? $(tail -1 /tmp/refresh_$p.err)"
done
python3 - <<'PY'
import json,glob,sys
bad=[f for f in glob.glob('evidence/*.json') if (lambda c: c.get('discharged')!=c.get('obligations'))(json.load(open(f)).get('coverage',{}))]
print("evidence with undischarged obligations:", bad)
sys.exit(1 if bad else 0)
PY
