#!/bin/bash
# Re-runs every claimed quick check on the clean tree so that the committed evidence comes from clean-tree runs.
cd "$(dirname "$0")/.."
git -C ${VERIF_REPO:-/repo} diff --quiet || { echo "/repo not clean"; exit 2; }
for p in $(python3 -c "import json;print(' '.join(c['property_id'] for c in json.load(open('MANIFEST.json'))['checks']))"); do
  ./check $p --tier quick > /tmp/refresh_$p.out 2> /tmp/refresh_$p.err; echo "$p rc=$? $(tail -1 /tmp/refresh_$p.err)"
done
