#!/usr/bin/env python3
"""Re-freezes coq/theories/RefShapes.v (ref_shapes only) from the shapes the translator extracts NOW.
Run it by hand, only on a tree whose shape-tied functions have just been reviewed against the hand-written models
(after a `fix:` commit in /repo, or after a change of the translator's normalisation).  Never run by a check."""
import os, re, subprocess, sys, tempfile
V = os.path.dirname(os.path.dirname(os.path.abspath(__file__)))
repo = os.environ.get("VERIF_REPO", "/repo")
if subprocess.run(["git", "-C", repo, "diff", "--quiet"]).returncode != 0:
    sys.exit("refusing: %s has uncommitted changes" % repo)
with tempfile.TemporaryDirectory() as d:
    subprocess.run([os.path.join(V, "bin", "goextract"), repo, d], check=True, stdout=subprocess.DEVNULL)
    gen = open(os.path.join(d, "Signals.v")).read()
m = re.search(r"Definition shapes : list \(string \* string\) := (\[.*?\n\])\.", gen, re.S)
if not m:
    sys.exit("shapes not found in the generated Signals.v")
p = os.path.join(V, "coq", "theories", "RefShapes.v")
s = open(p).read()
s2, n = re.subn(r"(Definition ref_shapes : list \(string \* string\) := )\[.*?\n\]\.", lambda mm: mm.group(1) + m.group(1) + ".", s, count=1, flags=re.S)
if n != 1:
    sys.exit("ref_shapes not found in RefShapes.v")
open(p, "w").write(s2)
print("RefShapes.v: ref_shapes re-frozen (%d entries)" % m.group(1).count('\n  ("'))
