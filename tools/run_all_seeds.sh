#!/bin/bash
# Applies every seeded change in turn, runs the quick check of the property it breaks, reverts.  One line per seed;
# the result is written to seeded/last_sweep.txt of this copy of the framework.
V=$(cd "$(dirname "$0")/.." && pwd)
R=${VERIF_REPO:-/repo}
cd "$V"
OUT=${TMPDIR:-/tmp}/seed_results.$(basename "$V").$$
: > "$OUT"
for d in seeded/C*/; do
  s=$(basename $d); p=${s:0:3}
  [ -n "$1" ] && [[ ! "$s" =~ $1 ]] && continue
  tools/run_seed.sh $s $p >> "$OUT" 2>&1
done
git -C "$R" status --short >> "$OUT"
echo ALLDONE >> "$OUT"; grep "^C" "$OUT" > seeded/last_sweep.txt; cat "$OUT"; rm -f "$OUT"
