#!/bin/bash
# Applies every seeded change in turn, runs the quick check of the property it breaks, reverts.  One line per seed.
cd /verif
: > /tmp/seed_results.txt
for d in seeded/*/; do
  s=$(basename $d); p=${s:0:3}
  tools/run_seed.sh $s $p >> /tmp/seed_results.txt 2>&1
done
git -C /repo status --short >> /tmp/seed_results.txt
echo ALLDONE >> /tmp/seed_results.txt; grep "^C" /tmp/seed_results.txt > /verif/seeded/last_sweep.txt
