#!/bin/bash
# usage: run_seed.sh <seed id> <property> [<property> ...]
# Applies seeded/<id>/patch.diff to /repo, runs the quick checks, reverts.  Output: one line per check.
cd /verif
S=$1; shift
git -C /repo diff --quiet || { echo "/repo not clean"; exit 2; }
git -C /repo apply /verif/seeded/$S/patch.diff || { echo "apply failed"; exit 2; }
mkdir -p /tmp/seedrun
for P in "$@"; do
  ./check $P --tier quick > /tmp/seedrun/$S.$P.out 2> /tmp/seedrun/$S.$P.err; rc=$?
  v=$(grep -c '^VIOLATION' /tmp/seedrun/$S.$P.out)
  echo "$S $P rc=$rc $(grep '^VIOLATION' /tmp/seedrun/$S.$P.out | head -2 | tr '\n' ' ')"
done
for i in 1 2 3 4 5; do git -C /repo checkout -- . && break; sleep 1; done
./bin/goextract /repo coq/gen
(cd /verif/harness && GOFLAGS=-mod=mod GOPROXY=off GOSUMDB=off GOTOOLCHAIN=local CGO_ENABLED=0 go build -tags verif -o ../bin/harness .)
