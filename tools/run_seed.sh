#!/bin/bash
# usage: run_seed.sh <seed id> <property> [<property> ...]
# Applies seeded/<id>/patch.diff to the repository under test (VERIF_REPO, default /repo), runs the quick checks of this
# copy of the framework, reverts.  Output: one line per check.
V=$(cd "$(dirname "$0")/.." && pwd)
R=${VERIF_REPO:-/repo}
cd "$V"
S=$1; shift
git -C "$R" diff --quiet || { echo "$R not clean"; exit 2; }
# compiled Coq files of the clean tree are kept, so that the revert below does not cost a rebuild of the skeleton proofs
export VERIF_VOCACHE=1
./bin/goextract "$R" coq/gen > /dev/null
[ -d "coq/.vocache/$(python3 -m lib.vocache key)" ] || python3 -m lib.vocache store > /dev/null
git -C "$R" apply "$V/seeded/$S/patch.diff" || { echo "apply failed"; exit 2; }
T=${TMPDIR:-/tmp}/seedrun.$(basename "$V").$$
mkdir -p "$T"
for P in "$@"; do
  ./check $P --tier quick > "$T/$S.$P.out" 2> "$T/$S.$P.err"; rc=$?
  echo "$S $P rc=$rc $(grep '^VIOLATION' "$T/$S.$P.out" | head -2 | tr '\n' ' ')"
done
rm -rf "$T"
for i in 1 2 3 4 5; do git -C "$R" checkout -- . && break; sleep 1; done
./bin/goextract "$R" coq/gen > /dev/null
python3 -m lib.vocache restore > /dev/null
