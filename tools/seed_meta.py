#!/usr/bin/env python3
"""Writes seeded/<id>/meta.json for every seed and seeded/RESULTS.md from /tmp/seed_results.txt (tools/run_all_seeds.sh)."""
import json, os, re, glob

ROOT = os.path.join(os.path.dirname(os.path.dirname(os.path.abspath(__file__))), "seeded")
res = {}
if os.path.exists(os.path.join(ROOT, "last_sweep.txt")):
    for l in open(os.path.join(ROOT, "last_sweep.txt")):
        m = re.match(r'^(C\d\d[a-z]) (C\d\d) rc=(\d+)\s*(.*)$', l.strip())
        if m:
            res[m.group(1)] = {"check": m.group(2), "rc": int(m.group(3)), "lines": m.group(4)}
blind = {}
for bf in sorted(glob.glob(os.path.join(ROOT, "round*_blind*.txt"))):
    for l in open(bf):
        m = re.match(r'^(C\d\d[a-z]) (C\d\d) rc=(\d+)\s*(.*)$', l.strip())
        if m:
            lines = m.group(4)
            blind[m.group(1)] = ("missed (exit 0)" if m.group(3) == "0" else
                                 "obligation / tie only (no failing input)" if lines.count("VIOLATION") <= lines.count("no-failing-input-found") else
                                 "caught with a failing input") + " [%s]" % os.path.basename(bf)
props = {json.loads(l)["id"]: json.loads(l) for l in open(os.path.join(os.path.dirname(ROOT), "properties.jsonl"))}
rows = []
for d in sorted(glob.glob(ROOT + "/C*")):
    sid = os.path.basename(d)
    pid, ab = sid[:3], sid[3]
    notes = open(os.path.join(d, "agent_notes.md")).read() if os.path.exists(os.path.join(d, "agent_notes.md")) else ""
    # the section of this mutation
    secs = re.split(r'\n(?=#+ *Mutation)', notes)
    want = ab.upper()
    origin = open(os.path.join(d, "ORIGIN.txt")).read().strip() if os.path.exists(os.path.join(d, "ORIGIN.txt")) else ""
    if origin:
        want = "[12]"
    if ab == "z":
        want = "K"
    sec = next((s for s in secs if re.match(r'#+ *Mutation %s\b' % want, s)), None)
    if sec is None:
        sec = notes
    title = (re.search(r'#+ *Mutation %s\W*(.*)' % want, sec) or re.search(r'^#+ *(.*)', sec, re.M))
    title = title.group(1).strip() if title else ""
    need = re.search(r'(?:Needed to manifest|Needs|What is needed to manifest|Manifests only when|Trigger|needs)[^\n]*?:\s*(.*?)(?=\n- |\n\n|\n\d\. |\Z)', sec, re.S | re.I)
    need = " ".join(need.group(1).split())[:700] if need else ""
    r = res.get(sid)
    found = None
    if r:
        found = r["rc"] == 1 and r["lines"].count("VIOLATION") > r["lines"].count("no-failing-input-found")
    meta = {
        "seed": sid, "property": pid, "property_title": props[pid]["title"],
        "change": title[:300],
        "needs_to_manifest": need,
        "confirmed": "tools/confirm_seed.sh seeded/%s/patch.diff seeded/%s/demo_test.go.txt: patch applies to /repo HEAD, `go test .` (existing suite) passes with it, the demonstration test fails with it and passes without it" % (sid, sid),
        "blind_result": blind.get(sid, "not blind (rounds 1 and 2: the generators were strengthened after reading the seeding agent's summary, before the first run)"),
        "origin": origin or ("round %d, per-property seeding" % {"a": 1, "b": 1, "c": 2, "d": 2, "e": 3, "f": 3, "g": 4, "h": 4, "z": 6}.get(ab, 0)),
        "rebased": open(os.path.join(d, "REBASED.txt")).read().strip() if os.path.exists(os.path.join(d, "REBASED.txt")) else None,
        "ran": "tools/run_seed.sh %s %s  (git -C /repo apply; ./check %s --tier quick; git -C /repo checkout -- .)" % (sid, pid, pid),
        "result": (("caught: exit 1, VIOLATION with a concrete failing input" if found else "caught: exit 1, VIOLATION ... no-failing-input-found (an obligation / tie broke, the search found no failing input)") if r and r["rc"] == 1 else
                   ("MISSED (exit 0)" if r else "not run in the last sweep")),
    }
    json.dump(meta, open(os.path.join(d, "meta.json"), "w"), indent=1)
    rows.append(meta)
with open(ROOT + "/RESULTS.md", "w") as f:
    f.write("# Seeded changes: latest run of each seed (quick tier; seeded/last_sweep.txt names the sweep each line comes from; blind outcomes of rounds 3-6 are in seeded/round*_blind*.txt and in each meta.json)\n\n| seed | change | result |\n|---|---|---|\n")
    for m in rows:
        f.write("| %s | %s | %s |\n" % (m["seed"], m["change"].replace("|", "/")[:140], m["result"]))
print(len(rows), "seeds;", sum(1 for m in rows if m["result"].startswith("caught: exit 1, VIOLATION with")), "with failing input;",
      sum(1 for m in rows if "no-failing-input-found" in m["result"]), "obligation only;", sum(1 for m in rows if m["result"].startswith("MISSED")), "missed")
