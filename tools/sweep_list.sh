#!/bin/bash
# usage: sweep_list.sh <seed id> ...   - confirms each seed in a scratch worktree, then runs the quick check of its property on it
V=$(cd "$(dirname "$0")/.." && pwd)
cd "$V"
for s in "$@"; do
  c=$(tools/confirm_seed.sh seeded/$s/patch.diff seeded/$s/demo_test.go.txt 2>&1 | tail -1)
  echo "$s confirm: $c"
  tools/run_seed.sh $s ${s:0:3} 2>&1
done
echo ALLDONE
